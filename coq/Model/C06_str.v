(* C06 - token-level model of the rewriting of expression strings before
   compilation: qutip/core/coefficient.py  extract_constant /
   extract_cte_pattern / parse / fix_type  (called by try_parse from
   coeff_from_str).  Executable; no proofs here.

   A token is what parse() sees after space_parts(): a numeric literal, a
   name ([0-9a-zA-Z_]+) or a chunk of syntax characters.  Numeric literals
   carry the index (0..3) of the FIRST of the four regular expressions of
   extract_constant that matches them (exponent form ending in digits,
   exponent form "2.e3", digits-first "12" "1.5" "2." "3j", dot-first ".5"):
   extraction runs pattern by pattern, so the numbering of the temporary
   names _cte_temp<K>_ is by pattern class first and by position second,
   not left to right.  Texts and names are numbers (ids). *)
From Coq Require Import List Bool Arith.
Import ListNotations.

Inductive ctype := TInt | TDbl | TCpl | TStr | TObj | TData.

Definition ctype_eqb (a b : ctype) : bool :=
  match a, b with
  | TInt, TInt | TDbl, TDbl | TCpl, TCpl | TStr, TStr | TObj, TObj | TData, TData => true
  | _, _ => false
  end.

(* fix_type(ctype, accept_int, accept_float) *)
Definition fix_type (ai af : bool) (c : ctype) : ctype :=
  let c1 := match c with TInt => if ai then TInt else TDbl | _ => c end in
  match c1 with TDbl => if af then TDbl else TCpl | _ => c1 end.

Inductive tok :=
| TLit (cls : nat) (txt : nat)      (* numeric literal, pattern class, text id *)
| TName (x : nat)                   (* identifier *)
| TSyn (s : nat)                    (* syntax chunk *)
| TTemp (k : nat).                  (* _cte_temp<k>_ *)

(* extract_cte_pattern for one pattern: every literal of that class, left to
   right, becomes _cte_temp<len(constants)>_ and its text is appended *)
Fixpoint pass (c : nat) (toks : list tok) (consts : list nat) : list tok * list nat :=
  match toks with
  | [] => ([], consts)
  | TLit c' txt :: r =>
      if Nat.eqb c' c
      then let '(r', cs) := pass c r (consts ++ [txt]) in (TTemp (length consts) :: r', cs)
      else let '(r', cs) := pass c r consts in (TLit c' txt :: r', cs)
  | t :: r => let '(r', cs) := pass c r consts in (t :: r', cs)
  end.

(* extract_constant: the four patterns in order *)
Definition extract (toks : list tok) : list tok * list nat :=
  let '(t0, c0) := pass 0 toks [] in
  let '(t1, c1) := pass 1 t0 c0 in
  let '(t2, c2) := pass 2 t1 c1 in
  pass 3 t2 c2.

(* output of parse() *)
Inductive otok :=
| OSyn (s : nat)
| OName (x : nat)                   (* builtin or unknown name, kept *)
| OArg (ct : ctype) (n : nat)       (* self._arg<typecode><n> *)
| OCte (ct : ctype) (n : nat)       (* self._cte<typecode><n> *)
| OLit (cls txt : nat).             (* a literal no pattern extracted (never
                                       produced from classes 0..3) *)

Record pstate := {
  p_out : list otok;                        (* new_code, reversed *)
  p_vars : list (ctype * nat * nat);        (* (type, counter, arg name) *)
  p_cnt : ctype -> nat;                     (* typeCounts *)
  p_ord : list (ctype * nat)                (* ordered_constants: (type, text) *)
}.

Definition bump (f : ctype -> nat) (c : ctype) : ctype -> nat :=
  fun c' => if ctype_eqb c' c then S (f c') else f c'.

Section Parse.
  Variables ai af : bool.                   (* accept_int, accept_float *)
  Variable argty : nat -> option ctype.     (* compileType(args[name]) if name in args *)
  Variable litty : nat -> ctype.            (* find_type_from_str(text) *)
  Variable consts : list nat.               (* constants from extract *)

  Definition find_name (x : nat) (vs : list (ctype * nat * nat)) :=
    find (fun v => Nat.eqb (snd v) x) vs.

  (* one word of `for word in code.split()` *)
  Definition step (st : pstate) (t : tok) : pstate :=
    match t with
    | TSyn s => {| p_out := OSyn s :: p_out st; p_vars := p_vars st;
                   p_cnt := p_cnt st; p_ord := p_ord st |}
    | TLit c txt => {| p_out := OLit c txt :: p_out st; p_vars := p_vars st;
                       p_cnt := p_cnt st; p_ord := p_ord st |}
    | TName x =>
        match argty x with
        | Some ty =>
            match find_name x (p_vars st) with
            | Some (ct, n, _) =>
                {| p_out := OArg ct n :: p_out st; p_vars := p_vars st;
                   p_cnt := p_cnt st; p_ord := p_ord st |}
            | None =>
                let ct := fix_type ai af ty in
                let n := p_cnt st ct in
                {| p_out := OArg ct n :: p_out st;
                   p_vars := p_vars st ++ [(ct, n, x)];
                   p_cnt := bump (p_cnt st) ct; p_ord := p_ord st |}
            end
        | None => {| p_out := OName x :: p_out st; p_vars := p_vars st;
                     p_cnt := p_cnt st; p_ord := p_ord st |}
        end
    | TTemp k =>
        match nth_error consts k with
        | Some txt =>
            let ct := fix_type ai af (litty txt) in
            {| p_out := OCte ct (length (p_ord st)) :: p_out st; p_vars := p_vars st;
               p_cnt := p_cnt st; p_ord := p_ord st ++ [(ct, txt)] |}
        | None => st        (* constants[int(...)] would raise IndexError *)
        end
    end.

  Definition init_state : pstate :=
    {| p_out := []; p_vars := []; p_cnt := fun _ => 0; p_ord := [] |}.

  Definition run_words (toks : list tok) : pstate := fold_left step toks init_state.
End Parse.

(* parse(code, args, compile_opt): (new code, variables, ordered_constants) *)
Definition parse (ai af : bool) (argty : nat -> option ctype) (litty : nat -> ctype)
           (toks : list tok)
  : list otok * list (ctype * nat * nat) * list (ctype * nat) :=
  let '(toks', consts) := extract toks in
  let st := run_words ai af argty litty consts toks' in
  (rev (p_out st), p_vars st, p_ord st).

(* ---------------------------------------------------------------- meaning *)
(* what a token denotes for whoever evaluates the expression: syntax, a name
   looked up in the ambient environment (builtins, t), or a VALUE: that of a
   literal text or that of an argument *)
Inductive den :=
| DSyn (s : nat) | DName (x : nat) | DLitV (txt : nat) | DArgV (x : nat) | DBad.

Definition denote_orig (argty : nat -> option ctype) (t : tok) : den :=
  match t with
  | TLit _ txt => DLitV txt
  | TName x => match argty x with Some _ => DArgV x | None => DName x end
  | TSyn s => DSyn s
  | TTemp _ => DBad
  end.

(* the consumer (make_cy_code / test_parsed) binds self._cte<ty><n> to
   fromstr(text) of the n-th ordered constant and self._arg<ty><n> to
   args[name] of the variable with that generated name *)
Definition find_key (ct : ctype) (n : nat) (vs : list (ctype * nat * nat)) :=
  find (fun v => ctype_eqb (fst (fst v)) ct && Nat.eqb (snd (fst v)) n) vs.

Definition denote_new (vars : list (ctype * nat * nat)) (ord : list (ctype * nat))
           (o : otok) : den :=
  match o with
  | OSyn s => DSyn s
  | OName x => DName x
  | OLit _ txt => DLitV txt
  | OArg ct n => match find_key ct n vars with Some (_, _, x) => DArgV x | None => DBad end
  | OCte ct n => match nth_error ord n with
                 | Some (ct', txt) => if ctype_eqb ct ct' then DLitV txt else DBad
                 | None => DBad
                 end
  end.
