(* Model of qutip/solver/result.py (Result and its helpers), of the
   result sub-classes
     qutip/solver/heom/bofin_solvers.py  HEOMResult
     qutip/solver/floquet.py             FloquetResult
     qutip/solver/stochastic.py          StochasticTrajResult
   and of the skeletons that feed them:
     qutip/solver/solver_base.py  Solver.run
     qutip/solver/floquet.py      FMESolver.run (same skeleton)
     qutip/solver/multitraj.py    _initialize_run_one_traj/_integrate_one_traj
     qutip/solver/stochastic.py   StochasticSolver._integrate_one_traj
     qutip/solver/integrator/integrator.py  Integrator.run

   States, times, raw integrator data, noise increments and expectation
   values are abstract (Section variables): the model is the bookkeeping -
   which processor is registered for which option valuation, what every
   `add` appends where, what the read-only properties return.

   No proofs in this file. *)
From Coq Require Import List ZArith Bool Arith.
Import ListNotations.

(* ---------------------------------------------------------------- inputs *)
Inductive key := KInt (n : nat) | KUser (z : Z).

(* what `_e_op_func` dispatches on *)
Inductive okind := OQobj | OQobjEvo | OCall | OBad.
Record op := { o_kind : okind; o_id : Z }.

(* the forms of the `e_ops` argument: None, one object, list/tuple, dict
   (a Python dict: insertion ordered association list) *)
Inductive eops :=
| ENone
| ESingle (o : op)
| EList (l : list op)
| EDict (d : list (key * op)).

Inductive cls := CResult | CHeom | CFloquet | CStoch.

Record opts := {
  store_states : option bool;      (* None / True / False *)
  store_final_state : bool;
  store_ados : bool;               (* HEOMResult *)
  store_floquet_states : bool;     (* FloquetResult *)
  store_measurement : bool }.      (* StochasticTrajResult: truthiness of the option *)

Inductive error := TypeError | IndexError.
Inductive outcome (A : Type) := Ok (a : A) | Raise (e : error).
Arguments Ok {A} a.
Arguments Raise {A} e.

(* reading an attribute: missing attribute / None / an object *)
Inductive access (A : Type) := NoAttr | PyNone | Obj (a : A).
Arguments NoAttr {A}.
Arguments PyNone {A}.
Arguments Obj {A} a.

(* result.py _BaseResult._e_ops_to_dict *)
Definition e_ops_to_dict (e : eops) : list (key * op) :=
  match e with
  | ENone => []
  | EList l => combine (map KInt (seq 0 (length l))) l
  | EDict d => d
  | ESingle o => [(KInt 0, o)]
  end.

(* state processors.  `PEop i o` is `self.e_ops[k]._store` for the i-th
   entry of the dict: ExpectOp holds the bound method
   `self.e_data[k].append` of the i-th list, so it is positional. *)
Inductive proc :=
| PEop (i : nat) (o : op)
| PStoreState
| PStoreFinal
| PMop (i : nat) (o : op).     (* StochasticTrajResult m_ops[i]._store *)

Definition proc_requires_copy (p : proc) : bool :=
  match p with PStoreState | PStoreFinal => true | _ => false end.

Fixpoint app_nth {A} (l : list (list A)) (i : nat) (v : A) : list (list A) :=
  match l, i with
  | [], _ => []
  | x :: t, O => (x ++ [v]) :: t
  | x :: t, S i' => x :: app_nth t i' v
  end.

Section Model.
  Variables T S V N D : Type.
  (* the three kinds of expectation operation (oracles: their values are
     numerics, C10/C05 territory) *)
  Variable expectQ : Z -> S -> V.          (* expect(op, state) *)
  Variable expectE : Z -> T -> S -> V.     (* QobjEvo.expect(t, state) *)
  Variable callF : Z -> T -> S -> V.       (* f(t, state) *)
  Variable rho : S -> S.                   (* HierarchyADOsState.rho *)
  Variable conv : S -> T -> S.             (* FloquetBasis.from_floquet_basis(state, t) *)

  Record result := {
    r_cls : cls;
    r_opts : opts;
    r_times : list T;
    r_keys : list key;                (* keys of e_data / e_ops, dict order *)
    r_ops : list op;                  (* e_ops[k].op, same order *)
    r_edata : list (list V);          (* e_data values, same order *)
    r_states : list S;
    r_final : option S;               (* _final_state *)
    r_procs : list proc;              (* _state_processors *)
    r_copy : bool;                    (* _state_processors_require_copy *)
    r_ado : list S;                   (* HEOMResult.ado_states (when the attribute exists) *)
    r_final_ado : option S;           (* HEOMResult._final_ado_state *)
    r_flo : list S;                   (* FloquetResult.floquet_states (when not None) *)
    r_noise : list N;                 (* StochasticTrajResult.noise *)
    r_mexp : list (list V) }.         (* StochasticTrajResult.m_expect *)

  (* Result._e_op_func / HEOMResult._e_op_func: the function stored in the
     ExpectOp.  In HEOMResult operators act on `ado_state.rho`, callables
     receive the ADO state itself. *)
  Definition ev (c : cls) (o : op) (t : T) (s : S) : V :=
    match o_kind o with
    | OQobj => expectQ (o_id o) (match c with CHeom => rho s | _ => s end)
    | OQobjEvo => expectE (o_id o) t (match c with CHeom => rho s | _ => s end)
    | _ => callF (o_id o) t s
    end.

  Definition op_ok (o : op) : bool :=
    match o_kind o with OBad => false | _ => true end.

  (* does `_post_init` register `_store_state`:
     store_states or (len(e_ops) == 0 and store_states is None) *)
  Definition stores_states (o : opts) (nops : nat) : bool :=
    match store_states o with
    | Some b => b
    | None => Nat.eqb nops 0
    end.

  (* Result._post_init *)
  Definition post_init_procs (o : opts) (nops : nat) : list proc :=
    (if stores_states o nops then [PStoreState] else [])
    ++ (if store_final_state o && negb (stores_states o nops) then [PStoreFinal] else []).

  Definition eop_procs (ops : list op) : list proc :=
    map (fun io => PEop (fst io) (snd io)) (combine (seq 0 (length ops)) ops).
  Definition mop_procs (ops : list op) : list proc :=
    map (fun io => PMop (fst io) (snd io)) (combine (seq 0 (length ops)) ops).

  (* Result.__init__ followed by the class's _post_init; `m_ops` is only
     read by StochasticTrajResult *)
  Definition new_result (c : cls) (o : opts) (e : eops) (m_ops : list op)
    : outcome result :=
    let d := e_ops_to_dict e in
    let ops := map snd d in
    if negb (forallb op_ok ops) then Raise TypeError else
    let use_m := match c with CStoch => store_measurement o | _ => false end in
    if use_m && negb (forallb op_ok m_ops) then Raise TypeError else
    let procs := eop_procs ops ++ post_init_procs o (length ops)
                 ++ (if use_m then mop_procs m_ops else []) in
    Ok {| r_cls := c; r_opts := o; r_times := [];
          r_keys := map fst d; r_ops := ops;
          r_edata := map (fun _ => []) d;
          r_states := []; r_final := None;
          r_procs := procs;
          r_copy := existsb proc_requires_copy procs;
          r_ado := []; r_final_ado := None; r_flo := []; r_noise := [];
          r_mexp := if use_m then map (fun _ => []) m_ops else [] |}.

  Definition set_times r x := {| r_cls := r_cls r; r_opts := r_opts r; r_times := x;
    r_keys := r_keys r; r_ops := r_ops r; r_edata := r_edata r; r_states := r_states r;
    r_final := r_final r; r_procs := r_procs r; r_copy := r_copy r; r_ado := r_ado r;
    r_final_ado := r_final_ado r; r_flo := r_flo r; r_noise := r_noise r; r_mexp := r_mexp r |}.
  Definition set_edata r x := {| r_cls := r_cls r; r_opts := r_opts r; r_times := r_times r;
    r_keys := r_keys r; r_ops := r_ops r; r_edata := x; r_states := r_states r;
    r_final := r_final r; r_procs := r_procs r; r_copy := r_copy r; r_ado := r_ado r;
    r_final_ado := r_final_ado r; r_flo := r_flo r; r_noise := r_noise r; r_mexp := r_mexp r |}.
  Definition set_states r x y := {| r_cls := r_cls r; r_opts := r_opts r; r_times := r_times r;
    r_keys := r_keys r; r_ops := r_ops r; r_edata := r_edata r; r_states := x;
    r_final := r_final r; r_procs := r_procs r; r_copy := r_copy r; r_ado := y;
    r_final_ado := r_final_ado r; r_flo := r_flo r; r_noise := r_noise r; r_mexp := r_mexp r |}.
  Definition set_final r x y := {| r_cls := r_cls r; r_opts := r_opts r; r_times := r_times r;
    r_keys := r_keys r; r_ops := r_ops r; r_edata := r_edata r; r_states := r_states r;
    r_final := x; r_procs := r_procs r; r_copy := r_copy r; r_ado := r_ado r;
    r_final_ado := y; r_flo := r_flo r; r_noise := r_noise r; r_mexp := r_mexp r |}.
  Definition set_flo r x := {| r_cls := r_cls r; r_opts := r_opts r; r_times := r_times r;
    r_keys := r_keys r; r_ops := r_ops r; r_edata := r_edata r; r_states := r_states r;
    r_final := r_final r; r_procs := r_procs r; r_copy := r_copy r; r_ado := r_ado r;
    r_final_ado := r_final_ado r; r_flo := x; r_noise := r_noise r; r_mexp := r_mexp r |}.
  Definition set_noise r x := {| r_cls := r_cls r; r_opts := r_opts r; r_times := r_times r;
    r_keys := r_keys r; r_ops := r_ops r; r_edata := r_edata r; r_states := r_states r;
    r_final := r_final r; r_procs := r_procs r; r_copy := r_copy r; r_ado := r_ado r;
    r_final_ado := r_final_ado r; r_flo := r_flo r; r_noise := x; r_mexp := r_mexp r |}.
  Definition set_mexp r x := {| r_cls := r_cls r; r_opts := r_opts r; r_times := r_times r;
    r_keys := r_keys r; r_ops := r_ops r; r_edata := r_edata r; r_states := r_states r;
    r_final := r_final r; r_procs := r_procs r; r_copy := r_copy r; r_ado := r_ado r;
    r_final_ado := r_final_ado r; r_flo := r_flo r; r_noise := r_noise r; r_mexp := x |}.

  (* one processor call `op(t, state)` *)
  Definition run_proc (t : T) (s : S) (r : result) (p : proc) : result :=
    match p with
    | PEop i o => set_edata r (app_nth (r_edata r) i (ev (r_cls r) o t s))
    | PMop i o => set_mexp r (app_nth (r_mexp r) i (ev (r_cls r) o t s))
    | PStoreState =>
        (* Result._store_state / HEOMResult._store_state *)
        match r_cls r with
        | CHeom => set_states r (r_states r ++ [rho s])
                     (if store_ados (r_opts r) then r_ado r ++ [s] else r_ado r)
        | _ => set_states r (r_states r ++ [s]) (r_ado r)
        end
    | PStoreFinal =>
        (* Result._store_final_state / HEOMResult._store_final_state *)
        match r_cls r with
        | CHeom => set_final r (Some (rho s))
                     (if store_ados (r_opts r) then Some s else r_final_ado r)
        | _ => set_final r (Some s) (r_final_ado r)
        end
    end.

  (* Result.add (the copy made by _pre_copy is the identity on values) *)
  Definition base_add (r : result) (t : T) (s : S) : result :=
    fold_left (run_proc t s) (r_procs r) (set_times r (r_times r ++ [t])).

  (* the class's `add`: FloquetResult.add, StochasticTrajResult.add *)
  Definition add (r : result) (t : T) (s : S) (noise : option N) : result :=
    match r_cls r with
    | CFloquet =>
        let r1 := if store_floquet_states (r_opts r)
                  then set_flo r (r_flo r ++ [s]) else r in
        base_add r1 t (conv s t)
    | CStoch =>
        let r1 := base_add r t s in
        match noise with Some n => set_noise r1 (r_noise r1 ++ [n]) | None => r1 end
    | _ => base_add r t s
    end.

  Definition adds (r : result) (pts : list (T * S * option N)) : result :=
    fold_left (fun r p => add r (fst (fst p)) (snd (fst p)) (snd p)) pts r.

  (* ------------------------------------------------------ read-only views *)
  Definition last_opt {A} (l : list A) : option A :=
    match rev l with [] => None | x :: _ => Some x end.

  (* Result.final_state *)
  Definition final_state (r : result) : option S :=
    match r_final r with
    | Some s => Some s
    | None => last_opt (r_states r)
    end.

  (* Result.expect: list(e_data.values()) *)
  Definition expect (r : result) : list (list V) := r_edata r.
  Definition e_data (r : result) : list (key * list V) := combine (r_keys r) (r_edata r).

  (* HEOMResult.ado_states: the attribute exists only with store_ados *)
  Definition ado_states (r : result) : access (list S) :=
    match r_cls r with
    | CHeom => if store_ados (r_opts r) then Obj (r_ado r) else NoAttr
    | _ => NoAttr
    end.

  (* HEOMResult.final_ado_state:
       if self._final_ado_state is not None: return self._final_ado_state
       if self.ado_states: return self.ado_states[-1]
       return None *)
  Definition final_ado_state (r : result) : access S :=
    match r_cls r with
    | CHeom =>
        if store_ados (r_opts r) then
          match r_final_ado r with
          | Some a => Obj a
          | None => match last_opt (r_ado r) with Some a => Obj a | None => PyNone end
          end
        else NoAttr
    | _ => NoAttr
    end.

  (* the property as it was before qutip commit 676e94e (returned
     self._final_state); kept only to document the old behaviour, not part
     of the model of the current code *)
  Definition old_final_ado_state (r : result) : access S :=
    match r_cls r with
    | CHeom =>
        if store_ados (r_opts r) then
          match r_final_ado r with
          | Some _ => match r_final r with Some x => Obj x | None => PyNone end
          | None => match last_opt (r_ado r) with Some a => Obj a | None => PyNone end
          end
        else NoAttr
    | _ => NoAttr
    end.

  (* FloquetResult.floquet_states *)
  Definition floquet_states (r : result) : access (list S) :=
    match r_cls r with
    | CFloquet => if store_floquet_states (r_opts r) then Obj (r_flo r) else PyNone
    | _ => NoAttr
    end.

  (* StochasticTrajResult: shapes of dW / wiener_process / measurement
     (number of rows is the length of one noise vector = number of m_ops;
     only the time axis is modelled) *)
  Definition dW_len (r : result) : nat := length (r_noise r).
  Definition wiener_len (r : result) : nat := length (r_times r).
  (* measurement: None unless store_measurement; with 'start'/'end' the
     m_expect rows lose one column, and are added to the scaled noise whose
     time axis is len(np.diff(times)) *)
  Definition measurement_cols (r : result) : access (list nat * nat * nat) :=
    match r_cls r with
    | CStoch =>
        if store_measurement (r_opts r)
        then Obj (map (fun row => pred (length row)) (r_mexp r),
                  length (r_noise r), pred (length (r_times r)))
        else PyNone
    | _ => NoAttr
    end.

  (* ------------------------------------------------------------ Solver.run *)
  Variable IS : Type.                             (* integrator internal state *)
  Variable prepare : S -> D.                      (* Solver._prepare_state *)
  Variable restore : D -> S.                      (* Solver._restore_state *)
  Variable set_state : T -> D -> IS.              (* Integrator.set_state *)
  Variable integrate : IS -> T -> IS * (T * D * option N).   (* Integrator.integrate *)

  (* Integrator.run: for t in tlist[1:]: yield self.integrate(t) *)
  Fixpoint integ_run (i : IS) (ts : list T) : list (T * D * option N) :=
    match ts with
    | [] => []
    | t :: ts' => let r := integrate i t in snd r :: integ_run (fst r) ts'
    end.

  Definition out_point (x : T * D * option N) : T * S * option N :=
    (fst (fst x), restore (snd (fst x)), snd x).

  (* Solver.run / FMESolver.run / MultiTrajSolver._run_one_traj:
       _data0 = self._prepare_state(state0)
       self._integrator.set_state(tlist[0], _data0)
       results = self._resultclass(e_ops, self.options, ...)
       results.add(tlist[0], self._restore_state(_data0))
       for t, state in self._integrator.run(tlist):
           results.add(t, self._restore_state(state)) *)
  Definition solver_run (c : cls) (o : opts) (e : eops) (m_ops : list op)
             (s0 : S) (tlist : list T) : outcome result :=
    match tlist with
    | [] =>
        (* Solver.run / FMESolver.run read tlist[0] (set_state) before the
           result object is built; MultiTrajSolver._initialize_run_one_traj
           (CStoch) builds the result first *)
        match c, new_result c o e m_ops with
        | CStoch, Raise x => Raise x
        | _, _ => Raise IndexError
        end
    | t0 :: rest =>
        let d0 := prepare s0 in
        let i := set_state t0 d0 in
        match new_result c o e m_ops with
        | Raise x => Raise x
        | Ok r0 =>
            let r1 := add r0 t0 (restore d0) None in
            Ok (adds r1 (map out_point (integ_run i rest)))
        end
    end.
End Model.

(* ------------------------------------------------------------------------
   Executable instance used by the correspondence harness: times, states,
   raw data and noise are integers; values record which operation was
   applied to which (time, state). *)
Inductive xval := XQ (id s : Z) | XE (id t s : Z) | XC (id t s : Z).

Definition x_rho (s : Z) : Z := (s + 1000)%Z.
Definition x_conv (s t : Z) : Z := (5000 + 100 * s + t)%Z.

Definition x_new := new_result Z Z xval Z.
Definition x_add := add Z Z xval Z XQ XE XC x_rho x_conv.
Definition x_adds := adds Z Z xval Z XQ XE XC x_rho x_conv.

(* a scripted integrator: internal state = list of outputs still to give *)
Definition x_integrate (i : list (Z * Z * option Z)) (t : Z)
  : list (Z * Z * option Z) * (Z * Z * option Z) :=
  match i with
  | [] => ([], (t, 0%Z, None))
  | x :: i' => (i', x)
  end.

(* what the harness observes of a result *)
Definition x_observe (r : result Z Z xval Z) :=
  (r_times _ _ _ _ r, e_data _ _ _ _ r, r_states _ _ _ _ r,
   final_state _ _ _ _ r,
   (ado_states _ _ _ _ r, final_ado_state _ _ _ _ r, floquet_states _ _ _ _ r),
   (r_noise _ _ _ _ r, r_mexp _ _ _ _ r, measurement_cols _ _ _ _ r),
   r_copy _ _ _ _ r).

Definition x_observe_out (r : outcome (result Z Z xval Z)) :=
  match r with
  | Ok r => Ok (x_observe r)
  | Raise e => Raise e
  end.

(* new_result followed by a sequence of add calls *)
Definition x_script (c : cls) (o : opts) (e : eops) (m_ops : list op)
           (pts : list (Z * Z * option Z)) :=
  x_observe_out (match x_new c o e m_ops with
                 | Ok r => Ok (x_adds r pts)
                 | Raise x => Raise x
                 end).

(* Solver.run with the scripted integrator; prepare s = s + 1, restore d = 2d *)
Definition x_run (c : cls) (o : opts) (e : eops) (m_ops : list op) (s0 : Z)
           (tlist : list Z) (outs : list (Z * Z * option Z)) :=
  x_observe_out
    (solver_run Z Z xval Z Z XQ XE XC x_rho x_conv (list (Z * Z * option Z))
       (fun s => (s + 1)%Z) (fun d => (2 * d)%Z) (fun _ _ => outs) x_integrate
       c o e m_ops s0 tlist).
