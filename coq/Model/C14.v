(* Model of qutip/solver/parallel.py: _generic_pmap and serial_map.

   The model is a small-step machine whose program counter follows the
   statements of _generic_pmap between two consecutive "synchronisation
   points" - the places where the executor's thread can run the done-callback
   or the clock can pass end_time:

     PHead     `while i < len(values)` and the test `len(waiting) >= num_workers`
     PWait     concurrent.futures.wait(..., FIRST_COMPLETED)
     PCheck    `if time.time() >= end_time or (errors and fail_fast) or finished`
     PSubmit   the inner `while len(waiting) < num_workers and i < len(values)`
               (one submission per step, followed by a window in which
               callbacks of already running tasks may fire)
     PAfter    `if not aborted: wait(..., ALL_COMPLETED)`
     PShutdown shutdown_executor(executor, waiting)
     PDone     the final raise / return

   A *schedule* is the list of decisions the environment takes at those
   points: which in-flight tasks complete (their callbacks fire in the listed
   order) and whether the clock passes end_time.  Completions of tasks that
   were not submitted, or that already completed, are ignored, so every list
   of decisions is a schedule. *)
From Coq Require Import List ZArith Bool Arith Lia.
Import ListNotations.

Inductive outcome :=
| Val (v : Z) (stop : bool)   (* task returns v; a reducer given v answers "<= 0 left" iff stop *)
| Err (e : Z).                (* task raises exception number e *)

Record decision := { d_expire : bool; d_done : list nat }.

Inductive pc := PHead | PWait | PCheck | PSubmit | PAfter | PShutdown | PDone.

Record cfg := {
  outs : list outcome;        (* outcome of task k = nth k outs *)
  workers : nat;
  fail_fast : bool;
  reducer : bool }.

Record st := {
  s_pc : pc;
  s_i : nat;                       (* next value to submit *)
  s_waiting : list nat;            (* the local set `waiting` *)
  s_compl : list nat;              (* tasks whose done-callback has run, latest first *)
  s_errors : list (nat * Z);       (* the dict `errors`, insertion order *)
  s_finished : bool;               (* `finished` non-empty *)
  s_expired : bool;                (* time.time() >= end_time *)
  s_rlog : list (nat * Z);         (* calls made to reduce_func: (task, value) *)
  s_results : list (option Z);     (* the list `results` (no reducer) *)
  s_submitted : list nat;          (* submission order, latest first *)
  s_aborted : bool;
  s_late : nat;                    (* submissions made while a stop condition already held *)
  s_sched : list decision }.

Definition memb (x : nat) (l : list nat) : bool := existsb (Nat.eqb x) l.

Fixpoint set_nth {A} (l : list A) (k : nat) (x : A) : list A :=
  match l, k with
  | [], _ => []
  | _ :: t, O => x :: t
  | h :: t, S k' => h :: set_nth t k' x
  end.

Definition stop_cond (c : cfg) (s : st) : bool :=
  s_expired s || (negb (match s_errors s with [] => true | _ => false end) && fail_fast c)
  || s_finished s.

(* the done-callback for task j *)
Definition fire (c : cfg) (s : st) (j : nat) : st :=
  if memb j (s_submitted s) && negb (memb j (s_compl s)) then
    match nth_error (outs c) j with
    | Some (Err e) =>
        {| s_pc := s_pc s; s_i := s_i s; s_waiting := s_waiting s;
           s_compl := j :: s_compl s; s_errors := s_errors s ++ [(j, e)];
           s_finished := s_finished s; s_expired := s_expired s;
           s_rlog := s_rlog s; s_results := s_results s;
           s_submitted := s_submitted s; s_aborted := s_aborted s;
           s_late := s_late s; s_sched := s_sched s |}
    | Some (Val v stop) =>
        if reducer c then
        {| s_pc := s_pc s; s_i := s_i s; s_waiting := s_waiting s;
           s_compl := j :: s_compl s; s_errors := s_errors s;
           s_finished := s_finished s || stop; s_expired := s_expired s;
           s_rlog := s_rlog s ++ [(j, v)]; s_results := s_results s;
           s_submitted := s_submitted s; s_aborted := s_aborted s;
           s_late := s_late s; s_sched := s_sched s |}
        else
        {| s_pc := s_pc s; s_i := s_i s; s_waiting := s_waiting s;
           s_compl := j :: s_compl s; s_errors := s_errors s;
           s_finished := s_finished s; s_expired := s_expired s;
           s_rlog := s_rlog s; s_results := set_nth (s_results s) j (Some v);
           s_submitted := s_submitted s; s_aborted := s_aborted s;
           s_late := s_late s; s_sched := s_sched s |}
    | None => s
    end
  else s.

Definition fire_all (c : cfg) (s : st) (js : list nat) : st := fold_left (fire c) js s.

Definition with_pc (s : st) (p : pc) : st :=
  {| s_pc := p; s_i := s_i s; s_waiting := s_waiting s; s_compl := s_compl s;
     s_errors := s_errors s; s_finished := s_finished s; s_expired := s_expired s;
     s_rlog := s_rlog s; s_results := s_results s; s_submitted := s_submitted s;
     s_aborted := s_aborted s; s_late := s_late s; s_sched := s_sched s |}.

(* take the next decision; `dflt_all`: when the schedule is exhausted every
   task in flight completes (waits) or nothing happens (windows) *)
Definition pop (s : st) (dflt_all : bool) : decision * list decision :=
  match s_sched s with
  | d :: r => (d, r)
  | [] => ({| d_expire := false; d_done := if dflt_all then rev (s_waiting s) else [] |}, [])
  end.

(* apply a decision: clock, callbacks; `prune`: wait() returned, so the
   completed futures leave `waiting` *)
Definition sync (c : cfg) (s : st) (dflt_all prune : bool) (next : pc) : st :=
  let '(d, r) := pop s dflt_all in
  let s1 := fire_all c s (d_done d) in
  {| s_pc := next; s_i := s_i s1;
     s_waiting := if prune
                  then filter (fun j => negb (memb j (s_compl s1))) (s_waiting s1)
                  else s_waiting s1;
     s_compl := s_compl s1; s_errors := s_errors s1; s_finished := s_finished s1;
     s_expired := s_expired s1 || d_expire d;
     s_rlog := s_rlog s1; s_results := s_results s1; s_submitted := s_submitted s1;
     s_aborted := s_aborted s1; s_late := s_late s1; s_sched := r |}.

Definition submit (c : cfg) (s : st) : st :=
  {| s_pc := s_pc s; s_i := S (s_i s); s_waiting := s_i s :: s_waiting s;
     s_compl := s_compl s; s_errors := s_errors s; s_finished := s_finished s;
     s_expired := s_expired s; s_rlog := s_rlog s; s_results := s_results s;
     s_submitted := s_i s :: s_submitted s; s_aborted := s_aborted s;
     s_late := if stop_cond c s then S (s_late s) else s_late s;
     s_sched := s_sched s |}.

Definition step (c : cfg) (s : st) : st :=
  let n := length (outs c) in
  match s_pc s with
  | PHead =>
      if s_i s <? n then
        (if workers c <=? length (s_waiting s) then with_pc s PWait else with_pc s PCheck)
      else with_pc s PAfter
  | PWait => sync c s true true PCheck
  | PCheck =>
      if stop_cond c s then
        {| s_pc := PShutdown; s_i := s_i s; s_waiting := s_waiting s; s_compl := s_compl s;
           s_errors := s_errors s; s_finished := s_finished s; s_expired := s_expired s;
           s_rlog := s_rlog s; s_results := s_results s; s_submitted := s_submitted s;
           s_aborted := true; s_late := s_late s; s_sched := s_sched s |}
      else with_pc s PSubmit
  | PSubmit =>
      if (length (s_waiting s) <? workers c) && (s_i s <? n) then
        sync c (submit c s) false false PSubmit
      else with_pc s PHead
  | PAfter => sync c s true true PShutdown
  | PShutdown => sync c s true false PDone
  | PDone => s
  end.

Definition init (c : cfg) (sched : list decision) (expired0 : bool) : st :=
  {| s_pc := PHead; s_i := 0; s_waiting := []; s_compl := []; s_errors := [];
     s_finished := false; s_expired := expired0; s_rlog := [];
     s_results := repeat None (length (outs c)); s_submitted := []; s_aborted := false;
     s_late := 0; s_sched := sched |}.

Fixpoint iter (c : cfg) (fuel : nat) (s : st) : st :=
  match fuel with
  | O => s
  | S f => match s_pc s with PDone => s | _ => iter c f (step c s) end
  end.

(* what the caller of _generic_pmap observes *)
Inductive ret :=
| Return (results : option (list (option Z)))         (* None when a reducer is used *)
| Raise (e : Z)                                        (* fail_fast: the first collected error *)
| RaiseMap (errs : list (nat * Z)) (results : option (list (option Z)))
| OutOfFuel.

Definition res_of (c : cfg) (s : st) := if reducer c then None else Some (s_results s).

Definition final (c : cfg) (s : st) : ret :=
  match s_pc s with
  | PDone =>
      match s_errors s with
      | [] => Return (res_of c s)
      | (_, e) :: _ => if fail_fast c then Raise e else RaiseMap (s_errors s) (res_of c s)
      end
  | _ => OutOfFuel
  end.

(* enough for every schedule (Proofs/C14.v, run_terminates): each step either
   consumes a decision, submits a task, or is a bookkeeping step around one *)
Definition fuel_for (c : cfg) (sched : list decision) : nat :=
  20 * (length (outs c) + length sched) + 20.

Definition run (c : cfg) (sched : list decision) (expired0 : bool) : st :=
  iter c (fuel_for c sched) (init c sched expired0).

(* the trace compared with the implementation *)
Definition observe (c : cfg) (sched : list decision) (expired0 : bool) :=
  let s := run c sched expired0 in
  (rev (s_submitted s), s_rlog s, final c s).

(* ------------------------------------------------------------------ *)
(* serial_map *)

Record sst := {
  q_errors : list (nat * Z); q_rlog : list (nat * Z); q_results : list (option Z);
  q_stop : bool;              (* end_time = 0 was set, or clock expired *)
  q_raised : option Z }.

(* `expire_at k`: the clock passes end_time just before iteration k *)
Definition serial_step (c : cfg) (expire_at : nat -> bool) (s : sst) (n : nat) : sst :=
  match q_raised s with Some _ => s | None =>
  if q_stop s || expire_at n then
    {| q_errors := q_errors s; q_rlog := q_rlog s; q_results := q_results s;
       q_stop := true; q_raised := None |}
  else
    match nth_error (outs c) n with
    | Some (Err e) =>
        if fail_fast c then
          {| q_errors := q_errors s; q_rlog := q_rlog s; q_results := q_results s;
             q_stop := q_stop s; q_raised := Some e |}
        else
          {| q_errors := q_errors s ++ [(n, e)]; q_rlog := q_rlog s; q_results := q_results s;
             q_stop := q_stop s; q_raised := None |}
    | Some (Val v stop) =>
        if reducer c then
          {| q_errors := q_errors s; q_rlog := q_rlog s ++ [(n, v)]; q_results := q_results s;
             q_stop := q_stop s || stop; q_raised := None |}
        else
          {| q_errors := q_errors s; q_rlog := q_rlog s;
             q_results := set_nth (q_results s) n (Some v);
             q_stop := q_stop s; q_raised := None |}
    | None => s
    end
  end.

Definition serial_run (c : cfg) (expire_at : nat -> bool) : sst :=
  fold_left (serial_step c expire_at) (seq 0 (length (outs c)))
    {| q_errors := []; q_rlog := []; q_results := repeat None (length (outs c));
       q_stop := false; q_raised := None |}.

Definition serial_final (c : cfg) (s : sst) : ret :=
  match q_raised s with
  | Some e => Raise e
  | None =>
      let r := if reducer c then None else Some (q_results s) in
      match q_errors s with
      | [] => Return r
      | _ => RaiseMap (q_errors s) r
      end
  end.

Definition serial_observe (c : cfg) (expire_at : nat -> bool) :=
  let s := serial_run c expire_at in (q_rlog s, serial_final c s).
