(* C13 - a trajectory is a function of the problem and its seed alone.

   Executable model (stdlib only) of

     qutip/solver/multitraj.py   MultiTrajSolver._read_seed, _get_generator,
                                 _run_one_traj, run (map + reduce)
     qutip/solver/mcsolve.py     MCIntegrator.set_state / integrate / run /
                                 _do_collapse
     qutip/solver/sode/_noise.py Wiener.__init__ / _extend / dW, PreSetWiener
     qutip/solver/sode/sode.py   SIntegrator.set_state,
                                 _Explicit_Simple_Integrator.integrate
     qutip/solver/stochastic.py  StochasticSolver.run_from_experiment (the
                                 handling of the integrator option "dt")
     qutip/solver/multitrajresult.py  MultiTrajResult.add (+ McResult collapse)

   numpy's SeedSequence is modelled exactly as far as identity goes: a
   sequence is (entropy, spawn_key, n_children_spawned); `spawn n` returns the
   children with keys  spawn_key ++ [n_children_spawned + k]  and advances the
   counter.  The bit stream of a generator is an oracle
   `stream : seedid -> nat -> U` (k-th value handed out), a Section variable.

   The numerical ingredients of a trajectory (ODE stepping, norms, collapse
   search, channel choice, the SDE stepper) are Section variables as well; the
   model keeps the CONTROL and the BOOK-KEEPING: which object holds which
   piece of state between trajectories, which draw is used for what, what is
   appended where. *)
From Coq Require Import List ZArith Bool Arith Lia.
Import ListNotations.

(* ------------------------------------------------------------------ *)
(* 1. seeds: numpy.random.SeedSequence and MultiTrajSolver._read_seed  *)

Record sseq := { ss_ent : Z; ss_key : list nat; ss_n : nat }.

(* what the stream of default_rng(s) depends on *)
Definition seedid := (Z * list nat)%type.
Definition sid (s : sseq) : seedid := (ss_ent s, ss_key s).

Definition fresh (e : Z) : sseq := {| ss_ent := e; ss_key := []; ss_n := 0 |}.
Definition child (s : sseq) (k : nat) : sseq :=
  {| ss_ent := ss_ent s; ss_key := ss_key s ++ [k]; ss_n := 0 |}.
Definition bump (s : sseq) (n : nat) : sseq :=
  {| ss_ent := ss_ent s; ss_key := ss_key s; ss_n := ss_n s + n |}.

(* SeedSequence.spawn(n): the children and the parent afterwards *)
Definition spawn (s : sseq) (n : nat) : list sseq * sseq :=
  (map (fun k => child s (ss_n s + k)) (seq 0 n), bump s n).

(* an element of a seed list: a SeedSequence, or an integer *)
Inductive item := ISeq (s : sseq) | IInt (n : Z).
Definition of_item (i : item) : sseq :=
  match i with ISeq s => s | IInt n => fresh n end.

(* the `seeds=` argument of run() *)
Inductive seedarg := SNone | SSeq (s : sseq) | SInt (n : Z) | SList (l : list item).

Record rs_out := {
  rs_seeds : option (list sseq);   (* None: ValueError (list shorter than ntraj) *)
  rs_solver : sseq;                (* solver.seed_sequence afterwards *)
  rs_user : option sseq }.         (* the caller's SeedSequence afterwards *)

(* multitraj.py: _read_seed *)
Definition read_seed (solver_ss : sseq) (a : seedarg) (ntraj : nat) : rs_out :=
  match a with
  | SNone =>                                    (* self.seed_sequence.spawn(ntraj) *)
      let '(l, p) := spawn solver_ss ntraj in
      {| rs_seeds := Some l; rs_solver := p; rs_user := None |}
  | SSeq s =>                                   (* seed.spawn(ntraj) *)
      let '(l, p) := spawn s ntraj in
      {| rs_seeds := Some l; rs_solver := solver_ss; rs_user := Some p |}
  | SInt n =>                                   (* SeedSequence(seed).spawn(ntraj) *)
      {| rs_seeds := Some (fst (spawn (fresh n) ntraj)); rs_solver := solver_ss;
         rs_user := None |}
  | SList l =>
      if ntraj <=? length l then                (* len(seed) >= ntraj *)
        {| rs_seeds := Some (map of_item (firstn ntraj l)); rs_solver := solver_ss;
           rs_user := None |}
      else {| rs_seeds := None; rs_solver := solver_ss; rs_user := None |}
  end.

(* ------------------------------------------------------------------ *)
(* 2. generators: _get_generator(seed) = default_rng(seed)             *)

Record gen := { g_seed : seedid; g_pos : nat }.
Definition mkgen (s : sseq) : gen := {| g_seed := sid s; g_pos := 0 |}.
Definition adv (g : gen) (n : nat) : gen := {| g_seed := g_seed g; g_pos := g_pos g + n |}.

(* what a draw was used for (trace compared with the implementation) *)
Inductive role := RThreshold | RWhich.

(* ------------------------------------------------------------------ *)
(* 3. Monte-Carlo trajectory: mcsolve.py MCIntegrator                  *)
Section MC.
Variables U T Y : Type.
Variable stream : seedid -> nat -> U.        (* k-th value of generator.random() *)
Variable zeroU oneU : U.
Variable leU : U -> U -> bool.               (* norm <= target_norm *)
Variable ltT : T -> T -> bool.               (* t_old < t *)
Variable mix : U -> U -> U.                  (* u * (1 - floor) + floor *)
(* the problem *)
Variable nchan : nat.                        (* len(self._n_ops) *)
Variable prob : Y -> U.                      (* _prob_func *)
Variable ode_step : T -> Y -> T -> T * Y.    (* integrator.mcstep from (t,y) towards t *)
Variable find : T -> Y -> T -> Y -> U -> U -> U -> option (T * Y).
   (* _find_collapse_time t_prev y_prev t_step y_step norm_old norm target; None = RuntimeError *)
Variable choose : T -> Y -> U -> nat.        (* cumsum/searchsorted on the n_ops *)
Variable jump : nat -> T -> Y -> option Y.   (* c_ops[which] applied and normalised;
                                                None: new_norm < mc_corr_eps *)
Variable renorm : Y -> Y.                    (* state / norm *)

(* the attributes of an MCIntegrator (and of the ODE integrator it wraps,
   whose state after set_state is (t, y): assumed, see trusted base) that
   live from one trajectory to the next *)
Record mci := {
  m_coll : list (T * nat);      (* self.collapses *)
  m_target : U;                 (* self.target_norm *)
  m_gen : gen;                  (* self._generator *)
  m_t : T; m_y : Y;             (* self._integrator state *)
  m_set : bool;                 (* self._is_set *)
  m_log : list (role * nat) }.  (* instrumentation: (use, index in the stream) of every draw *)

Definition draw (s : mci) (r : role) : U * mci :=
  (stream (g_seed (m_gen s)) (g_pos (m_gen s)),
   {| m_coll := m_coll s; m_target := m_target s; m_gen := adv (m_gen s) 1;
      m_t := m_t s; m_y := m_y s; m_set := m_set s;
      m_log := m_log s ++ [(r, g_pos (m_gen s))] |}).

(* MCIntegrator.set_state(t, state0, generator, no_jump, jump_prob_floor) *)
Definition mc_set_state (s : mci) (t : T) (y0 : Y) (g : gen) (no_jump : bool) (floor : U) : mci :=
  let s1 := {| m_coll := []; m_target := m_target s; m_gen := g; m_t := m_t s; m_y := m_y s;
               m_set := m_set s; m_log := [] |} in
  let s2 := if no_jump
            then {| m_coll := m_coll s1; m_target := zeroU; m_gen := m_gen s1; m_t := m_t s1;
                    m_y := m_y s1; m_set := m_set s1; m_log := m_log s1 |}
            else let '(u, s') := draw s1 RThreshold in
                 {| m_coll := m_coll s'; m_target := mix u floor; m_gen := m_gen s';
                    m_t := m_t s'; m_y := m_y s'; m_set := m_set s'; m_log := m_log s' |} in
  {| m_coll := m_coll s2; m_target := m_target s2; m_gen := m_gen s2; m_t := t; m_y := y0;
     m_set := true; m_log := m_log s2 |}.

(* MCIntegrator._do_collapse(collapse_time, state) *)
Definition mc_do_collapse (s : mci) (tc : T) (y : Y) : mci :=
  let '(which, s1) :=
    if nchan =? 1 then (0, s)
    else let '(u, s') := draw s RWhich in (choose tc y u, s') in
  match jump which tc y with
  | None =>       (* collapse caused by numerical error: no record, no new threshold *)
      {| m_coll := m_coll s1; m_target := m_target s1; m_gen := m_gen s1; m_t := tc;
         m_y := renorm y; m_set := m_set s1; m_log := m_log s1 |}
  | Some y' =>
      let '(u, s2) := draw s1 RThreshold in
      {| m_coll := m_coll s2 ++ [(tc, which)]; m_target := u; m_gen := m_gen s2; m_t := tc;
         m_y := y'; m_set := m_set s2; m_log := m_log s2 |}
  end.

(* MCIntegrator.integrate(t): the while loop, `fuel` iterations at most.
   Returns None on RuntimeError / fuel exhausted. *)
Fixpoint mc_loop (fuel : nat) (s : mci) (t : T) (t_old : T) (y_old : Y) (norm_old : U)
  : option (mci * T * Y) :=
  match fuel with
  | O => None
  | S f =>
      if ltT t_old t then
        let '(t_step, y) := ode_step t_old y_old t in
        let norm := prob y in
        if leU norm (m_target s) then
          match find t_old y_old t_step y norm_old norm (m_target s) with
          | None => None
          | Some (tc, yc) =>
              let s' := mc_do_collapse s tc yc in
              mc_loop f s' t (m_t s') (m_y s') oneU
          end
        else
          mc_loop f {| m_coll := m_coll s; m_target := m_target s; m_gen := m_gen s;
                       m_t := t_step; m_y := y; m_set := m_set s; m_log := m_log s |}
                  t t_step y norm
      else Some (s, t_old, renorm y_old)
  end.

Definition mc_integrate (fuel : nat) (s : mci) (t : T) : option (mci * T * Y) :=
  mc_loop fuel s t (m_t s) (m_y s) (prob (m_y s)).

(* MCIntegrator.run(tlist): for t in tlist[1:]: yield integrate(t) *)
Fixpoint mc_run (fuel : nat) (s : mci) (ts : list T) (acc : list (T * Y))
  : mci * option (list (T * Y)) :=
  match ts with
  | [] => (s, Some acc)
  | t :: r =>
      match mc_integrate fuel s t with
      | None => (s, None)
      | Some (s', t', y') => mc_run fuel s' r (acc ++ [(t', y')])
      end
  end.

(* one trajectory as the caller sees it: states at tlist[1:], collapses,
   and (instrumentation) the draw log *)
Record mc_traj := {
  tr_states : option (list (T * Y));        (* None: the trajectory raised *)
  tr_coll : list (T * nat);
  tr_draws : list (role * nat) }.

(* MultiTrajSolver._run_one_traj(seed, state, tlist) on an integrator in
   state s: _get_generator(seed); set_state(tlist[0], state, generator);
   run(tlist); result.collapse = integrator.collapses *)
Definition mc_run_one (fuel : nat) (s : mci) (seed : sseq) (t0 : T) (y0 : Y) (ts : list T)
    (no_jump : bool) (floor : U) : mc_traj * mci :=
  let s1 := mc_set_state s t0 y0 (mkgen seed) no_jump floor in
  let '(s2, out) := mc_run fuel s1 ts [] in
  ({| tr_states := out; tr_coll := m_coll s2; tr_draws := m_log s2 |}, s2).

End MC.

(* ------------------------------------------------------------------ *)
(* 4. diffusive trajectory: Wiener + _Explicit_Simple_Integrator       *)
Section SDE.
Variables V Y : Type.                        (* one normal variate; stepper state *)
Variable stream : seedid -> nat -> V.        (* k-th variate of generator.normal *)
Variable zeroV : V.
Variable addV : V -> V -> V.
Variable ndw ncol : nat.                     (* N_dw, len(rhs.sc_ops): a noise row has ndw*ncol values *)
Variable sstep : Y -> list (list V) -> Y.    (* step_func(t, state, dt, dW, N) over the N rows *)

Definition width := ndw * ncol.

(* round(x / d) for d > 0, Python's round-half-even *)
Definition round_div (x d : Z) : Z :=
  let q := Z.div x d in let r := Z.modulo x d in
  if (2 * r <? d)%Z then q
  else if (d <? 2 * r)%Z then (q + 1)%Z
  else if Z.even q then q else (q + 1)%Z.

(* sode/_noise.py: a Wiener object.  Times are integers (a fixed dyadic unit). *)
Record wiener := {
  w_t0 : Z; w_dt : Z;
  w_rows : list (list V);        (* self.noise, one row per dt step *)
  w_gen : option gen;            (* None: PreSetWiener, _extend raises *)
  w_calls : list nat }.          (* instrumentation: N_new_vals of every generator.normal call *)

Definition new_wiener (t0 dt : Z) (g : gen) : wiener :=
  {| w_t0 := t0; w_dt := dt; w_rows := []; w_gen := Some g; w_calls := [] |}.

Definition row_at (g : gen) (j : nat) : list V :=
  map (fun i => stream (g_seed g) (g_pos g + j * width + i)) (seq 0 width).

(* Wiener._extend(idx) *)
Definition w_extend (w : wiener) (idx : nat) : option wiener :=
  match w_gen w with
  | None => None                                   (* PreSetWiener: ValueError *)
  | Some g =>
      let nnew := idx - length (w_rows w) in
      Some {| w_t0 := w_t0 w; w_dt := w_dt w;
              w_rows := w_rows w ++ map (row_at g) (seq 0 nnew);
              w_gen := Some (adv g (nnew * width));
              w_calls := w_calls w ++ [nnew] |}
  end.

(* Wiener.dW(t, N) *)
Definition w_dW (w : wiener) (t : Z) (n : nat) : option (wiener * list (list V)) :=
  let idx0 := Z.to_nat (round_div (t - w_t0 w) (w_dt w)) in
  let w' := if (Z.of_nat (length (w_rows w)) <=? Z.of_nat idx0 + Z.of_nat n - 1)%Z
            then w_extend w (idx0 + n) else Some w in
  match w' with
  | None => None
  | Some w1 => Some (w1, firstn n (skipn idx0 (w_rows w1)))
  end.

(* attributes of the stochastic integrator that persist between trajectories *)
Record sint := {
  i_dt : Z;                      (* self.options["dt"] *)
  i_t : Z; i_y : Y;
  i_w : wiener;
  i_set : bool }.

(* what is handed to set_state as `generator` *)
Inductive gsrc := GGen (g : gen) | GPreset (t0 dt : Z) (rows : list (list V)).

(* SIntegrator.set_state(t, state0, generator) *)
Definition s_set_state (s : sint) (t : Z) (y0 : Y) (g : gsrc) : sint :=
  {| i_dt := i_dt s; i_t := t; i_y := y0;
     i_w := match g with
            | GGen g => new_wiener t (i_dt s) g
            | GPreset t0 dt rows =>
                {| w_t0 := t0; w_dt := dt; w_rows := rows; w_gen := None; w_calls := [] |}
            end;
     i_set := true |}.

Definition colsum (rows : list (list V)) : list V :=
  map (fun c => fold_left addV (map (fun r => nth c r zeroV) rows) zeroV) (seq 0 ncol).

Inductive sres := SOk (s : sint) (t : Z) (noise : list V) | SSkip (s : sint) | SErr.

(* _Explicit_Simple_Integrator.integrate(t) *)
Definition s_integrate (s : sint) (t : Z) : sres :=
  let delta := (t - i_t s)%Z in
  let dt := i_dt s in
  if (delta <? 0)%Z then SErr
  else if (2 * delta <? dt)%Z then SSkip s          (* warns, returns zeros(N_dw) *)
  else
    let n0 := Z.div delta dt in
    let extra := Z.modulo delta dt in
    let n := Z.to_nat (if (dt <? 2 * extra)%Z then n0 + 1 else n0)%Z in
    match w_dW (i_w s) (i_t s) n with
    | None => SErr
    | Some (w1, rows) =>
        let t' := (i_t s + dt * Z.of_nat n)%Z in
        SOk {| i_dt := i_dt s; i_t := t'; i_y := sstep (i_y s) rows; i_w := w1;
               i_set := i_set s |} t' (colsum rows)
    end.

(* one stored point of a trajectory: time, state, noise added to the result *)
Inductive spoint := PStep (t : Z) (y : Y) (noise : list V) | PSkipped (t : Z) (y : Y).

Fixpoint s_run (s : sint) (ts : list Z) (acc : list spoint) : sint * option (list spoint) :=
  match ts with
  | [] => (s, Some acc)
  | t :: r =>
      match s_integrate s t with
      | SErr => (s, None)
      | SSkip s' => s_run s' r (acc ++ [PSkipped (i_t s') (i_y s')])
      | SOk s' t' nz => s_run s' r (acc ++ [PStep t' (i_y s') nz])
      end
  end.

Record s_traj := {
  st_points : option (list spoint);   (* None: raised *)
  st_calls : list nat }.              (* sizes of the generator.normal calls *)

(* _run_one_traj(seed, state, tlist) for the stochastic solvers *)
Definition s_run_one (s : sint) (seed : sseq) (t0 : Z) (y0 : Y) (ts : list Z) : s_traj * sint :=
  let s1 := s_set_state s t0 y0 (GGen (mkgen seed)) in
  let '(s2, out) := s_run s1 ts [] in
  ({| st_points := out; st_calls := w_calls (i_w s2) |}, s2).

(* StochasticSolver.run_from_experiment(state, tlist, noise): tlist = t0,
   t0+dt, ...; the option "dt" of the integrator is set to the spacing of
   tlist; `restore` = whether it is put back afterwards when no exception
   was raised.  restore = true is the code under test since /repo commit
   106cd48 (try/finally); restore = false is the code before it (the old
   value was restored in the `except` branch only) - kept so that the check
   recognises the defect if it comes back. *)
Definition s_experiment (restore : bool) (s : sint) (t0 dtx : Z) (y0 : Y) (ts : list Z)
    (rows : list (list V)) : s_traj * sint :=
  let old := i_dt s in
  if negb (ndw =? 1) then
    (* SIntegrator.set_state: t and state are assigned, then a scheme with
       N_dw <> 1 refuses preset noise (NotImplementedError); dt is put back
       on the exception path *)
    ({| st_points := None; st_calls := [] |},
     {| i_dt := old; i_t := t0; i_y := y0; i_w := i_w s; i_set := i_set s |})
  else
  let s0 := {| i_dt := dtx; i_t := i_t s; i_y := i_y s; i_w := i_w s; i_set := i_set s |} in
  let s1 := s_set_state s0 t0 y0 (GPreset t0 dtx rows) in
  let '(s2, out) := s_run s1 ts [] in
  let keep_old := match out with None => true | Some _ => restore end in
  ({| st_points := out; st_calls := w_calls (i_w s2) |},
   if keep_old
   then {| i_dt := old; i_t := i_t s2; i_y := i_y s2; i_w := i_w s2; i_set := i_set s2 |}
   else s2).

End SDE.

(* ------------------------------------------------------------------ *)
(* 5. the ensemble: MultiTrajSolver.run = read_seed; map; result.add   *)
Section Ens.
Variable TR : Type.                          (* a single-trajectory Result *)

(* multitrajresult.py: the parts of a MultiTrajResult that are per trajectory *)
Record mtres := {
  r_seeds : list sseq;          (* self.seeds *)
  r_trajs : list TR;            (* self.trajectories  (keep_runs_results) *)
  r_coll : list TR;             (* McResult.collapse / the per-run records kept without trajectories *)
  r_sum : list TR;              (* the summands of _sum_rel in the order they were added *)
  r_num : nat }.                (* num_trajectories *)

Definition empty_res : mtres :=
  {| r_seeds := []; r_trajs := []; r_coll := []; r_sum := []; r_num := 0 |}.

(* MultiTrajResult.add((seed, trajectory)) *)
Definition res_add (keep : bool) (r : mtres) (seed : sseq) (tr : TR) : mtres :=
  {| r_seeds := r_seeds r ++ [seed];
     r_trajs := if keep then r_trajs r ++ [tr] else r_trajs r;
     r_coll := r_coll r ++ [tr];
     r_sum := r_sum r ++ [tr];
     r_num := S (r_num r) |}.

(* the reducer is called with the results of the tasks listed in `order`
   (task numbers; C14: every completed task exactly once, any order);
   task j computed `val j` from seed number j *)
Definition reduce_all (keep : bool) (seeds : list sseq) (val : nat -> TR) (order : list nat)
  : mtres :=
  fold_left (fun r j =>
               match nth_error seeds j with
               | Some s => res_add keep r s (val j)
               | None => r
               end) order empty_res.

End Ens.
