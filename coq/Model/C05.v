(* C05 - model of the term algebra behind QobjEvo.

   Mirrors, constructor by constructor,
     /repo/qutip/core/cy/_element.pyx   _ConstantElement, _EvoElement,
         _FuncElement, _MapElement, _ProdElement
         (coeff, qobj, __mul__, __matmul__, linear_map, matmul_data_t)
     /repo/qutip/core/cy/qobjevo.pyx    QobjEvo.__call__, _call, __iadd__,
         __imul__, __imatmul__, __rmatmul__, __neg__, __isub__, trans, conj,
         dag, linear_map, compress, _compress_merge_qobj, matmul_data,
         expect_data
     /repo/qutip/core/cy/coefficient.pyx  Coefficient.__add__/__mul__/conj,
         SumCoefficient, MulCoefficient, ConjCoefficient, NormCoefficient,
         ConstantCoefficient (their _call)

   Scalars and operators are the carriers of an arbitrary structure [Alg]:
   a commutative ring C with an involution, and a C-module M with an
   associative bilinear product, a unit, three maps trans/conj/dag and a
   linear trace.  Nothing else is assumed of complex matrices.  The structure
   is instantiated at 2x2 matrices of Gaussian integers (G2, below) for
   execution by vm_compute; the laws are proved for that instance in
   Proofs/C05.v, so the structure is inhabited.

   No proofs in this file: the record only declares the laws. *)
From Coq Require Import List ZArith Bool Ring.
Import ListNotations.

Record Alg := {
  C : Type;
  c0 : C; c1 : C;
  cadd : C -> C -> C; cmul : C -> C -> C; csub : C -> C -> C; copp : C -> C;
  Cring : ring_theory c0 c1 cadd cmul csub copp (@eq C);
  cconj : C -> C;
  cconj_inv : forall z, cconj (cconj z) = z;
  cconj_add : forall z w, cconj (cadd z w) = cadd (cconj z) (cconj w);
  cconj_1 : cconj c1 = c1;
  M : Type;
  m0 : M; mI : M;
  madd : M -> M -> M;
  mmul : M -> M -> M;
  mscale : C -> M -> M;
  mtrans : M -> M; mconj : M -> M; mdag : M -> M;
  mtr : M -> C;
  meqb : M -> M -> bool;
  madd_comm : forall a b, madd a b = madd b a;
  madd_assoc : forall a b c, madd (madd a b) c = madd a (madd b c);
  madd_0_l : forall a, madd m0 a = a;
  mscale_1 : forall a, mscale c1 a = a;
  mscale_0 : forall a, mscale c0 a = m0;
  mscale_mul : forall z w a, mscale (cmul z w) a = mscale z (mscale w a);
  mscale_add_r : forall z a b, mscale z (madd a b) = madd (mscale z a) (mscale z b);
  mscale_add_l : forall z w a, mscale (cadd z w) a = madd (mscale z a) (mscale w a);
  mmul_scale_l : forall z a b, mmul (mscale z a) b = mscale z (mmul a b);
  mmul_scale_r : forall z a b, mmul a (mscale z b) = mscale z (mmul a b);
  mmul_add_l : forall a b x, mmul (madd a b) x = madd (mmul a x) (mmul b x);
  mmul_add_r : forall a b x, mmul a (madd b x) = madd (mmul a b) (mmul a x);
  mmul_assoc : forall a b x, mmul (mmul a b) x = mmul a (mmul b x);
  mmul_1_r : forall a, mmul a mI = a;
  mtr_add : forall a b, mtr (madd a b) = cadd (mtr a) (mtr b);
  mtr_scale : forall z a, mtr (mscale z a) = cmul z (mtr a);
  mtrans_add : forall a b, mtrans (madd a b) = madd (mtrans a) (mtrans b);
  mtrans_scale : forall z a, mtrans (mscale z a) = mscale z (mtrans a);
  mconj_add : forall a b, mconj (madd a b) = madd (mconj a) (mconj b);
  mconj_scale : forall z a, mconj (mscale z a) = mscale (cconj z) (mconj a);
  mdag_add : forall a b, mdag (madd a b) = madd (mdag a) (mdag b);
  mdag_scale : forall z a, mdag (mscale z a) = mscale (cconj z) (mdag a);
  meqb_sound : forall a b, meqb a b = true -> a = b
}.

(* Times and argument dictionaries.  [tT] is the type of evaluation times;
   what the sampled coefficients need of it is a comparison, the scalar
   t - t' and the elementwise closeness test of add_inter; [tsep] names a set
   of times on which that test is plain equality (law [tclose_sep]; for doubles
   two distinct numbers can pass rtol=1e-15 only if they are within 4 ulp).
   [tArgs] is what a function leaf stores about its arguments (the args given
   at construction restricted to the parameters it declares, and that set of
   parameters); [tRepl] is the type of replacement dictionaries handed to
   arguments() / replace_arguments / a call; [amerge a n] is the leaf after
   replace_arguments(n) (the entries of n the function declares, over a) and
   [rcomb n m] is the dictionary {**n, **m}. *)
Record TimeS (A : Alg) := {
  tT :> Type;
  tleb : tT -> tT -> bool;
  tclose : tT -> tT -> bool;
  tdiff : tT -> tT -> C A;
  tsep : tT -> Prop;
  tclose_sep : forall a b, tsep a -> tsep b -> tclose a b = true -> a = b;
  tArgs : Type;
  tRepl : Type;
  amerge : tArgs -> tRepl -> tArgs;
  rcomb : tRepl -> tRepl -> tRepl;
  amerge_assoc : forall a m n, amerge (amerge a m) n = amerge a (rcomb m n)
}.

Section Model.
Variable A : Alg.
Variable T : TimeS A.          (* evaluation times and argument dictionaries *)

Notation Cc := (C A).
Notation Mm := (M A).
Notation Args := (tArgs A T).
Notation Repl := (tRepl A T).

(* ---------------------------------------------------------------------- *)
(* coefficient.pyx: InterCoefficient.  np_arrays = (tlist, poly); poly has
   order+1 rows (row 0 = highest power) and one column per grid point. *)
Record inter := { igrid : list T; ipoly : list (list Cc) }.

Definition nth_c (l : list Cc) (k : nat) : Cc := nth k l (c0 A).

(* the interval index: the biggest k with tlist[k] <= t.  (_call guesses it
   from dt, verifies the guess and otherwise runs _binary_search; either way
   the result is this index for an increasing grid.) *)
Fixpoint find_idx (g : list T) (t : T) (k : nat) : nat :=
  match g with
  | [] => k
  | _ :: r =>
      match r with
      | [] => k
      | b :: _ => if tleb A T b t then find_idx r t (S k) else k
      end
  end.

(* the polynomial of interval k at offset f *)
Definition rows_eval (rows : list (list Cc)) (f : Cc) (k : nat) : Cc :=
  match rows with
  | [row] => nth_c row k                                          (* order == 0: poly[0, idx] *)
  | _ =>                                                          (* out *= factor; out += slice[i] *)
      fold_left (fun out row => cadd A (cmul A out f) (nth_c row k)) rows (c0 A)
  end.

(* InterCoefficient._call *)
Definition ieval (i : inter) (t : T) : Cc :=
  match igrid i with
  | [] => c0 A
  | t0 :: _ =>
      let lastrow := last (ipoly i) [] in
      if tleb A T t t0 then nth_c lastrow 0                       (* t <= tlist[0]: poly[-1, 0] *)
      else if tleb A T (last (igrid i) t0) t
           then nth_c lastrow (length (igrid i) - 1)              (* t >= tlist[-1]: poly[-1, -1] *)
      else
        let k := find_idx (igrid i) t 0 in
        rows_eval (ipoly i) (tdiff A T t (nth k (igrid i) t0)) k
  end.

(* np.allclose(left.tlist, right.tlist, ..) together with the shape test *)
Fixpoint all2 (p : T -> T -> bool) (a b : list T) : bool :=
  match a, b with
  | [], [] => true
  | x :: a', y :: b' => p x y && all2 p a' b'
  | _, _ => false
  end.

Fixpoint map2 {X} (f : X -> X -> X) (a b : list X) : list X :=
  match a, b with
  | x :: a', y :: b' => f x y :: map2 f a' b'
  | _, _ => []
  end.

(* add_inter's test, with the closeness test as a parameter so that the
   guard before commit f4e3df4 can be stated too *)
Definition fuse_guard_with (cl : T -> T -> bool) (l r : inter) : bool :=
  all2 cl (igrid l) (igrid r) && Nat.eqb (length (ipoly l)) (length (ipoly r)).

(* InterCoefficient.restore(left.tlist, left.poly + right.poly, left.dt) *)
Definition fuse (l r : inter) : inter :=
  {| igrid := igrid l; ipoly := map2 (map2 (cadd A)) (ipoly l) (ipoly r) |}.

Definition inter_ok (i : inter) : Prop :=
  Forall (fun row => length row = length (igrid i)) (ipoly i) /\ Forall (tsep A T) (igrid i).

(* ---------------------------------------------------------------------- *)
(* coefficient.pyx: the Coefficient classes that QobjEvo algebra creates.  *)
Inductive coef :=
| CFun (f : Args -> T -> Cc) (a : Args)   (* FunctionCoefficient(func, args) *)
| CInter (i : inter)          (* InterCoefficient *)
| CConst (z : Cc)             (* ConstantCoefficient._call = value *)
| CSum (a b : coef)           (* SumCoefficient._call = first + second *)
| CMul (a b : coef)           (* MulCoefficient._call = first * second *)
| CConj (a : coef)            (* ConjCoefficient._call = conj(base) *)
| CNorm (a : coef).           (* NormCoefficient._call = norm(base) = |.|^2 *)

Fixpoint ceval (c : coef) (t : T) : Cc :=
  match c with
  | CFun f a => f a t
  | CInter i => ieval i t
  | CConst z => z
  | CSum a b => cadd A (ceval a t) (ceval b t)
  | CMul a b => cmul A (ceval a t) (ceval b t)
  | CConj a => cconj A (ceval a t)
  | CNorm a => cmul A (ceval a t) (cconj A (ceval a t))
  end.

(* Coefficient.__add__: two InterCoefficient go through add_inter, anything
   else becomes a SumCoefficient *)
Definition coef_add_with (cl : T -> T -> bool) (a b : coef) : coef :=
  match a, b with
  | CInter l, CInter r => if fuse_guard_with cl l r then CInter (fuse l r) else CSum a b
  | _, _ => CSum a b
  end.
Definition coef_add := coef_add_with (tclose A T).

(* every sampled leaf is rectangular and lives on separated times *)
Fixpoint coef_ok (c : coef) : Prop :=
  match c with
  | CFun _ _ | CConst _ => True
  | CInter i => inter_ok i
  | CSum a b | CMul a b => coef_ok a /\ coef_ok b
  | CConj a | CNorm a => coef_ok a
  end.

(* class of a coefficient object, to compare with type(c).__name__ *)
Inductive ckind := CKFun | CKInter | CKConst | CKSum | CKMul | CKConj | CKNorm.
Definition ckind_of (c : coef) : ckind :=
  match c with
  | CFun _ _ => CKFun | CInter _ => CKInter | CConst _ => CKConst | CSum _ _ => CKSum
  | CMul _ _ => CKMul | CConj _ => CKConj | CNorm _ => CKNorm
  end.

(* ---------------------------------------------------------------------- *)
(* Entries of a transform stack.  The real lists hold Python callables
   (Qobj.trans, Qobj.conj, Qobj.dag, partial(Qobj.to, ..), user maps); here
   each entry carries, as ghost data, the [anti] flag it was pushed with. *)
Inductive tr :=
| TTrans                      (* Qobj.trans, pushed by QobjEvo.trans with anti=False *)
| TConj                       (* Qobj.conj,  pushed by QobjEvo.conj  with anti=True *)
| TDag                        (* Qobj.dag,   pushed by QobjEvo.dag   with anti=True *)
| TTo                         (* partial(Qobj.to, data_type=..): identity on values *)
| TLmul (q : Mm)              (* user map  X -> q @ X  given to QobjEvo.linear_map *)
| TRmul (q : Mm)              (* user map  X -> X @ q *)
| TUser (f : Mm -> Mm) (anti : bool).   (* any other map, with the flag it is pushed with *)

Definition tr_anti (x : tr) : bool :=
  match x with
  | TConj | TDag => true
  | TUser _ a => a
  | _ => false
  end.

Definition tr_sem (x : tr) (q : Mm) : Mm :=
  match x with
  | TTrans => mtrans A q
  | TConj => mconj A q
  | TDag => mdag A q
  | TTo => q
  | TLmul a => mmul A a q
  | TRmul a => mmul A q a
  | TUser f _ => f q
  end.

(* `for func in self._transform: out = func(out)` *)
Definition apply_trs (trs : list tr) (q : Mm) : Mm :=
  fold_left (fun o f => tr_sem f o) trs q.

Definition xor_anti (trs : list tr) : bool :=
  fold_left (fun b f => xorb b (tr_anti f)) trs false.

(* ---------------------------------------------------------------------- *)
(* _element.pyx: the five element classes. *)
Inductive elem :=
| Const (q : Mm)                               (* _ConstantElement(qobj) *)
| Evo (q : Mm) (c : coef)                      (* _EvoElement(qobj, coefficient) *)
| Func (f : Args -> T -> Mm) (a : Args)        (* _FuncElement(func, args) *)
| Map (f : Args -> T -> Mm) (a : Args) (trs : list tr) (z : Cc)
                                               (* _MapElement(_FuncElement(func, args), transform, coeff) *)
| Prod (l r : elem) (trs : list tr) (cj : bool). (* _ProdElement(left, right, transform, conj) *)

Definition cj_of (b : bool) (z : Cc) : Cc := if b then cconj A z else z.

(* .coeff(t) *)
Fixpoint coeff (e : elem) (t : T) : Cc :=
  match e with
  | Const _ => c1 A
  | Evo _ c => ceval c t
  | Func _ _ => c1 A
  | Map _ _ _ z => z
  | Prod l r _ cj => cj_of cj (cmul A (coeff l t) (coeff r t))
  end.

(* .qobj(t) *)
Fixpoint qobj (e : elem) (t : T) : Mm :=
  match e with
  | Const q => q
  | Evo q _ => q
  | Func f a => f a t
  | Map f a trs _ => apply_trs trs (f a t)
  | Prod l r trs _ => apply_trs trs (mmul A (qobj l t) (qobj r t))
  end.

(* what the element stands for: coeff(t) * qobj(t) *)
Definition value (e : elem) (t : T) : Mm := mscale A (coeff e t) (qobj e t).

(* `element * number` : the five __mul__ methods *)
Fixpoint scale (z : Cc) (e : elem) : elem :=
  match e with
  | Const q => Const (mscale A z q)            (* _ConstantElement(qobj * right) *)
  | Evo q c => Evo (mscale A z q) c            (* _EvoElement(base._qobj * factor, coefficient) *)
  | Func f a => Map f a [] z                   (* _MapElement(left, [], right) *)
  | Map f a trs w => Map f a trs (cmul A w z)  (* _MapElement(base, transform.copy(), _coeff*factor) *)
  | Prod l r trs cj => Prod l (scale (cj_of cj z) r) trs cj
      (* if self._conj: factor = conj(factor)
         _ProdElement(self._left, self._right * factor, transform.copy(), self._conj) *)
  end.

(* the rule before commit 7dc9384 (no conjugation of the factor); kept only
   to document the former defect, see C05_old_scale_rule_witness *)
Fixpoint old_scale (z : Cc) (e : elem) : elem :=
  match e with
  | Const q => Const (mscale A z q)
  | Evo q c => Evo (mscale A z q) c
  | Func f a => Map f a [] z
  | Map f a trs w => Map f a trs (cmul A w z)
  | Prod l r trs cj => Prod l (old_scale z r) trs cj
  end.

(* `left @ right` : Python tries type(left).__matmul__ then
   type(right).__matmul__ (c_api_binop_methods=True, so the same function
   serves both slots):
     _ConstantElement: Const @ Const, otherwise NotImplemented
     _EvoElement:      Evo@Evo, Evo@Const, Const@Evo, otherwise NotImplemented
     _FuncElement/_MapElement/_ProdElement: _ProdElement(left, right, []) *)
Definition matmul (a b : elem) : elem :=
  match a, b with
  | Const p, Const q => Const (mmul A p q)
  | Evo p c, Evo q d => Evo (mmul A p q) (CMul c d)
  | Evo p c, Const q => Evo (mmul A p q) c
  | Const p, Evo q d => Evo (mmul A p q) d
  | _, _ => Prod a b [] false
  end.

(* .linear_map(f, anti) *)
Definition linear_map (f : tr) (anti : bool) (e : elem) : elem :=
  match e with
  | Const q => Const (tr_sem f q)
  | Evo q c => Evo (tr_sem f q) (if anti then CConj c else c)
  | Func g a => Map g a [f] (c1 A)             (* _MapElement(self, [f]) : coeff defaults to 1. *)
  | Map g a trs z => Map g a (trs ++ [f]) (cj_of anti z)
  | Prod l r trs cj => Prod l r (trs ++ [f]) (xorb cj anti)
  end.

(* Coefficient.replace_arguments(args): FunctionCoefficient gets
   {**self.args, **args}; Sum/Mul/Conj/Norm recurse; Constant and Inter return self *)
Fixpoint creplace (n : Repl) (c : coef) : coef :=
  match c with
  | CFun f a => CFun f (amerge A T a n)
  | CInter _ | CConst _ => c
  | CSum a b => CSum (creplace n a) (creplace n b)
  | CMul a b => CMul (creplace n a) (creplace n b)
  | CConj a => CConj (creplace n a)
  | CNorm a => CNorm (creplace n a)
  end.

(* .replace_arguments(args, cache) of the five element classes (the cache only
   shares equal results; a function of unused arguments is unchanged by them) *)
Fixpoint ereplace (n : Repl) (e : elem) : elem :=
  match e with
  | Const q => Const q                                   (* return self *)
  | Evo q c => Evo q (creplace n c)                      (* _EvoElement(qobj, coefficient.replace_arguments(args)) *)
  | Func f a => Func f (amerge A T a n)                  (* _FuncElement(func, {**self._args, **args}) *)
  | Map f a trs z => Map f (amerge A T a n) trs z        (* _MapElement(base.replace_arguments(..), transform.copy(), coeff) *)
  | Prod l r trs cj => Prod (ereplace n l) (ereplace n r) trs cj
  end.

(* the same objects evaluated under an overriding argument dictionary *)
Fixpoint ceval_ov (n : Repl) (c : coef) (t : T) : Cc :=
  match c with
  | CFun f a => f (amerge A T a n) t
  | CInter i => ieval i t
  | CConst z => z
  | CSum a b => cadd A (ceval_ov n a t) (ceval_ov n b t)
  | CMul a b => cmul A (ceval_ov n a t) (ceval_ov n b t)
  | CConj a => cconj A (ceval_ov n a t)
  | CNorm a => cmul A (ceval_ov n a t) (cconj A (ceval_ov n a t))
  end.

(* matmul_data_t(t, state, out): [out = None] is the Python None (the result
   type is an option only because the rule before commit c657c42 could raise) *)
Definition acc_out (out : option Mm) (v : Mm) : Mm :=
  match out with None => v | Some o => madd A o v end.

Fixpoint mdt (e : elem) (t : T) (s : Mm) (out : option Mm) : option Mm :=
  match e with
  | Prod l r trs cj =>
      match trs with
      | [] =>                                  (* if not self._transform: *)
          match mdt r t s None with            (*   temp = self._right.matmul_data_t(t, state) *)
          | None => None
          | Some temp => mdt l t temp out      (*   out = self._left.matmul_data_t(t, temp, out) *)
          end
      | _ =>                                   (* elif out is None: matmul(data, state, coeff)
                                                  elif Dense: imatmul_data_dense(..) else: add(out, matmul(..)) *)
          Some (acc_out out (mscale A (coeff e t) (mmul A (qobj e t) s)))
      end
  | _ => Some (acc_out out (mscale A (coeff e t) (mmul A (qobj e t) s)))
  end.

(* the rule before commit c657c42: with a non-empty stack and out=None the
   code called _data.add(None, ..) and raised TypeError (None below); kept
   only to document the former defect, see C05_old_matmul_data_witness *)
Fixpoint old_mdt (e : elem) (t : T) (s : Mm) (out : option Mm) : option Mm :=
  match e with
  | Prod l r trs cj =>
      match trs with
      | [] =>
          match old_mdt r t s None with
          | None => None
          | Some temp => old_mdt l t temp out
          end
      | _ =>
          match out with
          | None => None
          | Some o => Some (madd A o (mscale A (coeff e t) (mmul A (qobj e t) s)))
          end
      end
  | _ => Some (acc_out out (mscale A (coeff e t) (mmul A (qobj e t) s)))
  end.

(* ---------------------------------------------------------------------- *)
(* qobjevo.pyx : a QobjEvo is its list of elements. *)
Definition qevo := list elem.

Definition is_const (e : elem) := match e with Const _ => true | _ => false end.
Definition is_evo (e : elem) := match e with Evo _ _ => true | _ => false end.
Definition is_other (e : elem) := negb (is_const e) && negb (is_evo e).

(* _call(t): out = mul(data_0, coeff_0); out = add(out, data_i, coeff_i) *)
Definition qe__call (es : qevo) (t : T) : Mm :=
  match es with
  | [] => m0 A                                  (* unreachable: elements is never empty *)
  | e :: r => fold_left (fun o x => madd A o (value x t)) r (value e t)
  end.

(* __call__(t): constant objects sum their Qobj directly (0 + q0 + q1 ..) *)
Definition qe_call (es : qevo) (t : T) : Mm :=
  if forallb is_const es then
    match es with
    | [] => m0 A
    | e :: r => fold_left (fun o x => madd A o (qobj x t)) r (qobj e t)
    end
  else qe__call es t.

Definition qe_iadd (a b : qevo) : qevo := a ++ b.
Definition qe_iadd_qobj (a : qevo) (q : Mm) : qevo := a ++ [Const q].
Definition qe_iadd_num (a : qevo) (z : Cc) : qevo := a ++ [Const (mscale A z (mI A))].
Definition qe_imul_num (a : qevo) (z : Cc) : qevo := map (scale z) a.
Definition qe_imul_coef (a : qevo) (c : coef) : qevo :=
  map (fun e => matmul e (Evo (mI A) c)) a.
Definition qe_imatmul_qobj (a : qevo) (q : Mm) : qevo := map (fun e => matmul e (Const q)) a.
Definition qe_rmatmul_qobj (q : Mm) (a : qevo) : qevo := map (fun e => matmul (Const q) e) a.
(* itertools.product(self.elements, other.elements): left index outermost *)
Definition qe_imatmul (a b : qevo) : qevo :=
  flat_map (fun l => map (fun r => matmul l r) b) a.
Definition qe_neg (a : qevo) : qevo := qe_imul_num a (copp A (c1 A)).
Definition qe_sub (a b : qevo) : qevo := qe_iadd a (qe_neg b).
Definition qe_linear_map (f : tr) (anti : bool) (a : qevo) : qevo := map (linear_map f anti) a.
Definition qe_trans := qe_linear_map TTrans false.
Definition qe_conj := qe_linear_map TConj true.
Definition qe_dag := qe_linear_map TDag true.

(* sum(element.qobj(0) for ..) = ((0 + q0) + q1) + .. ; 0 + q is q *)
Definition sum_qobj (l : list Mm) : Mm :=
  match l with
  | [] => m0 A
  | q :: r => fold_left (madd A) r q
  end.

(* _compress_merge_qobj: first-occurrence order, coefficients summed *)
Fixpoint merge_ins (q : Mm) (c : coef) (acc : list (Mm * coef)) : list (Mm * coef) :=
  match acc with
  | [] => [(q, c)]
  | (q', c') :: r =>
      if meqb A q q' then (q', coef_add c' c) :: r else (q', c') :: merge_ins q c r
  end.

Definition merge_evo (es : qevo) : qevo :=
  map (fun p => Evo (fst p) (snd p))
      (fold_left (fun acc e => match e with Evo q c => merge_ins q c acc | _ => acc end)
                 es []).

Definition compress (es : qevo) : qevo :=
  let cte := filter is_const es in
  let cte' := match cte with
              | _ :: _ :: _ => [Const (sum_qobj (map (fun e => match e with Const q => q | _ => m0 A end) cte))]
              | _ => cte
              end in
  cte' ++ merge_evo (filter is_evo es) ++ filter is_other es.

(* matmul_data(t, state): out = zeros; for element: out = element.matmul_data_t(t, state, out) *)
Definition qe_matmul_data (es : qevo) (t : T) (s : Mm) : option Mm :=
  fold_left (fun o e => match o with None => None | Some out => mdt e t s (Some out) end)
            es (Some (m0 A)).

Definition old_qe_matmul_data (es : qevo) (t : T) (s : Mm) : option Mm :=
  fold_left (fun o e => match o with None => None | Some out => old_mdt e t s (Some out) end)
            es (Some (m0 A)).

(* expect_data(t, state), operator state: out = 0; out += coeff * tr(data @ state) *)
Definition qe_expect (es : qevo) (t : T) (s : Mm) : Cc :=
  fold_left (fun o e => cadd A o (cmul A (coeff e t) (mtr A (mmul A (qobj e t) s)))) es (c0 A).

(* ---------------------------------------------------------------------- *)
(* Well-formedness: the invariant of every element QobjEvo can build.
   [tr_ok] is the only thing assumed of a stacked map: it is additive and
   homogeneous, conjugating scalars iff its flag is set. *)
Definition tr_ok (x : tr) : Prop :=
  (forall a b, tr_sem x (madd A a b) = madd A (tr_sem x a) (tr_sem x b)) /\
  (forall z a, tr_sem x (mscale A z a) = mscale A (cj_of (tr_anti x) z) (tr_sem x a)).

Fixpoint wf (e : elem) : Prop :=
  match e with
  | Const _ | Func _ _ => True
  | Evo _ c => coef_ok c
  | Map _ _ trs _ => Forall tr_ok trs
  | Prod l r trs cj => wf l /\ wf r /\ Forall tr_ok trs /\ cj = xor_anti trs
  end.

(* QobjEvo.arguments(n): every element gets replace_arguments(n) *)
Definition qe_arguments (n : Repl) (es : qevo) : qevo := map (ereplace n) es.
(* the same under an optional dictionary (None: nothing replaced) *)
Definition crep (ov : option Repl) (c : coef) : coef :=
  match ov with None => c | Some m => creplace m c end.
Definition rep (ov : option Repl) (es : qevo) : qevo :=
  match ov with None => es | Some m => map (ereplace m) es end.

(* ---------------------------------------------------------------------- *)
(* Expression trees over the public constructions, the object they build
   ([build], parametrised by the element-times-number rule so that the
   current rule and the former one share one definition) and what the
   property says they must evaluate to ([sem]: the same combination applied
   to the constituents' values at t). *)
Inductive qx :=
| XConst (q : Mm)                         (* QobjEvo(q) *)
| XPair (q : Mm) (c : coef)               (* QobjEvo([q, c]) *)
| XFunc (f : Args -> T -> Mm) (a : Args)  (* QobjEvo(f, args=a) *)
| XList (items : list (Mm * option coef)) (* QobjEvo([q0, [q1, c1], ..]) *)
| XAdd (a b : qx)                         (* a + b *)
| XSub (a b : qx)                         (* a - b *)
| XAddQ (a : qx) (q : Mm)                 (* a + q *)
| XAddNum (a : qx) (z : Cc)               (* a + z *)
| XMulNum (a : qx) (z : Cc)               (* a * z, z * a *)
| XMulCoef (a : qx) (c : coef)            (* a * c, c * a *)
| XMatmul (a b : qx)                      (* a @ b *)
| XMatmulQ (a : qx) (q : Mm)              (* a @ q *)
| XRmatmulQ (q : Mm) (a : qx)             (* q @ a *)
| XNeg (a : qx)                           (* -a *)
| XTrans (a : qx) | XConj (a : qx) | XDag (a : qx)
| XLinMap (f : tr) (a : qx)               (* a.linear_map(f), a.to(..) *)
| XCompress (a : qx)                      (* a.compress() *)
| XCtor (a : qx)                          (* QobjEvo(a): copy and compress *)
| XArgs (a : qx) (n : Repl)               (* QobjEvo(a, args=n), a(t, **n): copy + arguments(n) + compress *)
| XArguments (a : qx) (n : Repl)          (* b = a.copy(); b.arguments(n) *)
| XCopy (a : qx).                         (* a.copy() = QobjEvo(a, compress=False); pickle.loads(pickle.dumps(a)) *)

Definition read_item (p : Mm * option coef) : elem :=
  match snd p with None => Const (fst p) | Some c => Evo (fst p) c end.

Section Build.
Variable sc : Cc -> elem -> elem.
Fixpoint build_with (x : qx) : qevo :=
  match x with
  | XConst q => compress [Const q]
  | XPair q c => compress [Evo q c]
  | XFunc f a => compress [Func f a]
  | XList items => compress (map read_item items)
  | XAdd a b => qe_iadd (build_with a) (build_with b)
  | XSub a b => qe_iadd (build_with a) (map (sc (copp A (c1 A))) (build_with b))
  | XAddQ a q => qe_iadd_qobj (build_with a) q
  | XAddNum a z => qe_iadd_num (build_with a) z
  | XMulNum a z => map (sc z) (build_with a)
  | XMulCoef a c => qe_imul_coef (build_with a) c
  | XMatmul a b => qe_imatmul (build_with a) (build_with b)
  | XMatmulQ a q => qe_imatmul_qobj (build_with a) q
  | XRmatmulQ q a => qe_rmatmul_qobj q (build_with a)
  | XNeg a => map (sc (copp A (c1 A))) (build_with a)
  | XTrans a => qe_trans (build_with a)
  | XConj a => qe_conj (build_with a)
  | XDag a => qe_dag (build_with a)
  | XLinMap f a => qe_linear_map f false (build_with a)
  | XCompress a => compress (build_with a)
  | XCtor a => compress (build_with a)
  | XArgs a n => compress (map (ereplace n) (build_with a))
  | XArguments a n => map (ereplace n) (build_with a)
  | XCopy a => build_with a
  end.
End Build.

Definition build := build_with scale.              (* the code as it is *)
Definition old_build := build_with old_scale.      (* before commit 7dc9384 *)

Definition esum (l : list Mm) : Mm := fold_right (madd A) (m0 A) l.

(* evaluation under an optional overriding argument dictionary: what
   replace_arguments must amount to *)
Definition aov (ov : option Repl) (a : Args) : Args :=
  match ov with None => a | Some n => amerge A T a n end.
Definition cev (ov : option Repl) (c : coef) (t : T) : Cc :=
  match ov with None => ceval c t | Some n => ceval_ov n c t end.

Definition item_value (ov : option Repl) (t : T) (p : Mm * option coef) : Mm :=
  match snd p with None => fst p | Some c => mscale A (cev ov c t) (fst p) end.

Fixpoint semo (ov : option Repl) (x : qx) (t : T) : Mm :=
  match x with
  | XConst q => q
  | XPair q c => mscale A (cev ov c t) q
  | XFunc f a => f (aov ov a) t
  | XList items => esum (map (item_value ov t) items)
  | XAdd a b => madd A (semo ov a t) (semo ov b t)
  | XSub a b => madd A (semo ov a t) (mscale A (copp A (c1 A)) (semo ov b t))
  | XAddQ a q => madd A (semo ov a t) q
  | XAddNum a z => madd A (semo ov a t) (mscale A z (mI A))
  | XMulNum a z => mscale A z (semo ov a t)
  | XMulCoef a c => mscale A (cev ov c t) (semo ov a t)
  | XMatmul a b => mmul A (semo ov a t) (semo ov b t)
  | XMatmulQ a q => mmul A (semo ov a t) q
  | XRmatmulQ q a => mmul A q (semo ov a t)
  | XNeg a => mscale A (copp A (c1 A)) (semo ov a t)
  | XTrans a => mtrans A (semo ov a t)
  | XConj a => mconj A (semo ov a t)
  | XDag a => mdag A (semo ov a t)
  | XLinMap f a => tr_sem f (semo ov a t)
  | XCompress a => semo ov a t
  | XCtor a => semo ov a t
  | XArgs a n =>                     (* the inner replacement happens first: {**{**args, **n}, **m} *)
      semo (Some (match ov with None => n | Some m => rcomb A T n m end)) a t
  | XArguments a n =>
      semo (Some (match ov with None => n | Some m => rcomb A T n m end)) a t
  | XCopy a => semo ov a t
  end.

(* the same combination applied to the constituents' values at t *)
Definition sem (x : qx) (t : T) : Mm := semo None x t.

(* side conditions of the tree language: a map handed to linear_map is linear
   (the documented contract of QobjEvo.linear_map); sampled coefficients are
   rectangular and live on separated times *)
Fixpoint wfx (x : qx) : Prop :=
  match x with
  | XConst _ | XFunc _ _ => True
  | XPair _ c => coef_ok c
  | XList items => Forall (fun p => match snd p with None => True | Some c => coef_ok c end) items
  | XAdd a b | XSub a b | XMatmul a b => wfx a /\ wfx b
  | XLinMap f a => tr_ok f /\ tr_anti f = false /\ wfx a
  | XMulCoef a c => coef_ok c /\ wfx a
  | XAddQ a _ | XAddNum a _ | XMulNum a _ | XMatmulQ a _ | XArgs a _ | XArguments a _ | XCopy a
  | XRmatmulQ _ a | XNeg a | XTrans a | XConj a | XDag a | XCompress a | XCtor a => wfx a
  end.

(* ---------------------------------------------------------------------- *)
(* Derived constructions of superoperator.py / tensor.py on QobjEvo, as the
   compositions of QobjEvo operations the source performs.  [fpre], [fpost],
   [fl], [fr] are the Qobj-level maps handed to QobjEvo.linear_map (spre, spost,
   tensor(., 1), tensor(1, .)); [mi] is the scalar -1j and [h] the scalar 0.5. *)
Definition x_sprepost (fpre fpost : tr) (a b : qx) : qx :=      (* spre(A) * spost(B) *)
  XMatmul (XLinMap fpre a) (XLinMap fpost b).
Definition x_liouvillian0 (fpre fpost : tr) (mi : Cc) (H : qx) : qx :=
  XMulNum (XSub (XLinMap fpre H) (XLinMap fpost H)) mi.        (* -1.0j * (spre(H) - spost(H)) *)
Definition x_dissipator (fpre fpost : tr) (h : Cc) (a b : qx) : qx :=
  let adb := XMatmul (XDag a) b in                              (* ad_b = a.dag() * b *)
  XSub (XSub (x_sprepost fpre fpost a (XDag b))                 (* spre(a) * spost(b.dag()) *)
             (XMulNum (XLinMap fpre adb) h))                    (* - 0.5 * spre(ad_b) *)
       (XMulNum (XLinMap fpost adb) h).                         (* - 0.5 * spost(ad_b) *)
(* sum(D_1, .., D_k) = ((0 + D_1) + D_2) + ..; 0 + D goes through __radd__ and
   appends the constant term 0 * identity; sum([]) is the number 0 *)
Definition x_sum (ds : list qx) (L : qx) : qx :=               (* L += sum(ds) *)
  match ds with
  | [] => XAddNum L (c0 A)
  | d :: r => XAdd L (fold_left XAdd r (XAddNum d (c0 A)))
  end.
Definition x_liouvillian (fpre fpost : tr) (mi h : Cc) (H : qx) (cs : list qx) : qx :=
  x_sum (map (fun c => x_dissipator fpre fpost h c c) cs) (x_liouvillian0 fpre fpost mi H).
(* tensor(A, B) = A.linear_map(tensor(., 1)) @ B.linear_map(tensor(1, .)) *)
Definition x_tensor (fl fr : tr) (a b : qx) : qx := XMatmul (XLinMap fl a) (XLinMap fr b).

(* what those constructions must evaluate to, on the operands' values *)
Definition neg1 : Cc := copp A (c1 A).
Definition sub_val (x y : Mm) : Mm := madd A x (mscale A neg1 y).
Definition diss_val (fpre fpost : tr) (h : Cc) (a b : Mm) : Mm :=
  let adb := mmul A (mdag A a) b in
  sub_val (sub_val (mmul A (tr_sem fpre a) (tr_sem fpost (mdag A b)))
                   (mscale A h (tr_sem fpre adb)))
          (mscale A h (tr_sem fpost adb)).
Definition lio0_val (fpre fpost : tr) (mi : Cc) (x : Mm) : Mm :=
  mscale A mi (sub_val (tr_sem fpre x) (tr_sem fpost x)).
Definition zero_term : Mm := mscale A (c0 A) (mI A).
Definition lio_val (fpre fpost : tr) (mi h : Cc) (x : Mm) (cs : list Mm) : Mm :=
  match cs with
  | [] => madd A (lio0_val fpre fpost mi x) zero_term
  | c :: r =>
      madd A (lio0_val fpre fpost mi x)
           (fold_left (fun acc d => madd A acc (diss_val fpre fpost h d d)) r
                      (madd A (diss_val fpre fpost h c c) zero_term))
  end.

(* element class names, to compare with type(e).__name__ *)
Inductive kind := KConst | KEvo (c : ckind) | KFunc | KMap (n : nat) | KProd (l r : kind) (n : nat) (cj : bool).
Fixpoint kind_of (e : elem) : kind :=
  match e with
  | Const _ => KConst | Evo _ c => KEvo (ckind_of c) | Func _ _ => KFunc
  | Map _ _ trs _ => KMap (length trs)
  | Prod l r trs cj => KProd (kind_of l) (kind_of r) (length trs) cj
  end.

(* _FuncElement.qobj with its one-entry memo `_previous = (t, value)` *)
Definition func_qobj (teqb : T -> T -> bool) (f : T -> Mm)
           (prev : option (T * Mm)) (t : T) : Mm * option (T * Mm) :=
  match prev with
  | Some (t', q) => if teqb t t' then (q, prev) else (f t, Some (t, f t))
  | None => (f t, Some (t, f t))                (* (nan, None): nan == t is False *)
  end.

End Model.

Arguments CFun {A T}. Arguments CInter {A T}. Arguments CConst {A T}. Arguments CSum {A T}.
Arguments CMul {A T}. Arguments CConj {A T}. Arguments CNorm {A T}.
Arguments TTrans {A}. Arguments TConj {A}. Arguments TDag {A}. Arguments TTo {A}.
Arguments TLmul {A}. Arguments TRmul {A}. Arguments TUser {A}.
Arguments Const {A T}. Arguments Evo {A T}. Arguments Func {A T}.
Arguments Map {A T}. Arguments Prod {A T}.
Arguments XConst {A T}. Arguments XPair {A T}. Arguments XFunc {A T}. Arguments XList {A T}.
Arguments XAdd {A T}. Arguments XSub {A T}. Arguments XAddQ {A T}. Arguments XAddNum {A T}.
Arguments XMulNum {A T}. Arguments XMulCoef {A T}. Arguments XMatmul {A T}.
Arguments XMatmulQ {A T}. Arguments XRmatmulQ {A T}. Arguments XNeg {A T}.
Arguments XTrans {A T}. Arguments XConj {A T}. Arguments XDag {A T}. Arguments XLinMap {A T}.
Arguments XCompress {A T}. Arguments XCtor {A T}. Arguments XArgs {A T}. Arguments XArguments {A T}. Arguments XCopy {A T}.
Arguments Build_inter {A T}. Arguments igrid {A T}. Arguments ipoly {A T}.

(* ---------------------------------------------------------------------- *)
(* Execution instance: Gaussian integers and 2x2 matrices over them. *)
Definition GI := (Z * Z)%type.
Definition g0 : GI := (0, 0)%Z.
Definition g1 : GI := (1, 0)%Z.
Definition gadd (x y : GI) : GI := (fst x + fst y, snd x + snd y)%Z.
Definition gmul (x y : GI) : GI :=
  (fst x * fst y - snd x * snd y, fst x * snd y + snd x * fst y)%Z.
Definition gopp (x : GI) : GI := (- fst x, - snd x)%Z.
Definition gsub (x y : GI) : GI := gadd x (gopp y).
Definition gconj (x : GI) : GI := (fst x, - snd x)%Z.
Definition geqb (x y : GI) : bool := (Z.eqb (fst x) (fst y) && Z.eqb (snd x) (snd y))%bool.

(* ((a, b), (c, d)) is the matrix [[a, b], [c, d]] *)
Definition M2 := ((GI * GI) * (GI * GI))%type.
Definition mk2 (a b c d : GI) : M2 := ((a, b), (c, d)).
Definition e11 (m : M2) := fst (fst m).
Definition e12 (m : M2) := snd (fst m).
Definition e21 (m : M2) := fst (snd m).
Definition e22 (m : M2) := snd (snd m).
Definition z2 : M2 := mk2 g0 g0 g0 g0.
Definition i2 : M2 := mk2 g1 g0 g0 g1.
Definition add2 (x y : M2) : M2 :=
  mk2 (gadd (e11 x) (e11 y)) (gadd (e12 x) (e12 y)) (gadd (e21 x) (e21 y)) (gadd (e22 x) (e22 y)).
Definition mul2 (x y : M2) : M2 :=
  mk2 (gadd (gmul (e11 x) (e11 y)) (gmul (e12 x) (e21 y)))
      (gadd (gmul (e11 x) (e12 y)) (gmul (e12 x) (e22 y)))
      (gadd (gmul (e21 x) (e11 y)) (gmul (e22 x) (e21 y)))
      (gadd (gmul (e21 x) (e12 y)) (gmul (e22 x) (e22 y))).
Definition scale2 (z : GI) (x : M2) : M2 :=
  mk2 (gmul z (e11 x)) (gmul z (e12 x)) (gmul z (e21 x)) (gmul z (e22 x)).
Definition trans2 (x : M2) : M2 := mk2 (e11 x) (e21 x) (e12 x) (e22 x).
Definition conj2 (x : M2) : M2 := mk2 (gconj (e11 x)) (gconj (e12 x)) (gconj (e21 x)) (gconj (e22 x)).
Definition dag2 (x : M2) : M2 := mk2 (gconj (e11 x)) (gconj (e21 x)) (gconj (e12 x)) (gconj (e22 x)).
Definition tr2 (x : M2) : GI := gadd (e11 x) (e22 x).
Definition eqb2 (x y : M2) : bool :=
  (geqb (e11 x) (e11 y) && geqb (e12 x) (e12 y) && geqb (e21 x) (e21 y) && geqb (e22 x) (e22 y))%bool.

(* polynomial leaves used by the correspondence harness: sum_k c_k t^k, Horner *)
Definition gofZ (t : Z) : GI := (t, 0%Z).
Definition cpoly (cs : list GI) (t : Z) : GI :=
  fold_right (fun c acc => gadd c (gmul (gofZ t) acc)) g0 cs.
Definition mpoly (ms : list M2) (t : Z) : M2 :=
  fold_right (fun m acc => add2 m (scale2 (gofZ t) acc)) z2 ms.

(* ---------------------------------------------------------------------- *)
(* Integer times ("ticks") for execution.  rtol = 1e-15 exactly; the absolute
   tolerance of the guard before commit f4e3df4 is an/ad ticks (1e-15 s divided
   by the tick length). *)
Definition ten15 : Z := 1000000000000000%Z.
Definition zclose_new (a b : Z) : bool := (Z.abs (a - b) * ten15 <=? Z.abs b)%Z.
Definition zclose_old (an ad : Z) (a b : Z) : bool :=
  (Z.abs (a - b) * ten15 * ad <=? an * ten15 + Z.abs b * ad)%Z.
Definition zdiff (a b : Z) : GI := ((a - b)%Z, 0%Z).
Definition zsep (a : Z) : Prop := (Z.abs a < ten15)%Z.
(* args dictionaries: integer-coded names, integer values; the first entry of
   a name wins (so {**a, **n} is n ++ a).  A function leaf stores its parameter
   set (None: **kw or dict style, any name) and its current dictionary. *)
Definition dict := list (Z * Z).
Fixpoint lookup (k : Z) (d : dict) : option Z :=
  match d with
  | [] => None
  | (k', v) :: r => if Z.eqb k k' then Some v else lookup k r
  end.
Definition allowed (ps : option (list Z)) (k : Z) : bool :=
  match ps with None => true | Some l => existsb (Z.eqb k) l end.
(* {k: args[k] for k in _f_parameters & args.keys()} (everything when the set is None) *)
Definition dfilt (ps : option (list Z)) (n : dict) : dict :=
  filter (fun kv => allowed ps (fst kv)) n.
Definition dstate := (option (list Z) * dict)%type.
(* __init__: args restricted to the declared parameters *)
Definition dinit (ps : option (list Z)) (a0 : dict) : dstate := (ps, dfilt ps a0).
(* replace_arguments(n): {**self._args, **filtered n} *)
Definition dmerge (st : dstate) (n : dict) : dstate := (fst st, dfilt (fst st) n ++ snd st).
Definition dcomb (n m : dict) : dict := m ++ n.
(* what the function reads for parameter k (d: its default, or what kw.get(k, d) returns) *)
Definition getd (st : dstate) (k d : Z) : Z :=
  match lookup k (snd st) with Some v => v | None => d end.
(* the last value given for k in a history of replacement dictionaries *)
Fixpoint hist_last (k : Z) (hist : list dict) : option Z :=
  match hist with
  | [] => None
  | n :: r => match hist_last k r with Some v => Some v | None => lookup k n end
  end.
