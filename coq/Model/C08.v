(* C08 - channel representations describe one and the same map.
   Tier B executable index model of qutip/core/superop_reps.py (and the
   predicates of qutip/core/qobj.py), line by line.  No proofs here.

   Matrices are flat row-major lists (numpy C order) together with the
   qutip `dims` labels; the shape is the one the labels give.  Payloads are
   Gaussian integers Z*Z for execution; the reshuffle itself is polymorphic
   in the entry type. *)
From Coq Require Import List ZArith Bool Arith Lia.
Import ListNotations.

(* ------------------------------------------------------------ numpy index *)
(* C-order ravel / unravel.  The `_r` versions work on reversed lists (last
   axis first), which is the order in which numpy peels digits off. *)
Fixpoint unravel_r (rshape : list nat) (f : nat) : list nat :=
  match rshape with
  | [] => []
  | n :: t => (f mod n) :: unravel_r t (f / n)
  end.

Fixpoint ravel_r (rshape ridx : list nat) : nat :=
  match rshape, ridx with
  | n :: t, i :: u => i + n * ravel_r t u
  | _, _ => 0
  end.

Definition unravel (shape : list nat) (f : nat) : list nat :=
  rev (unravel_r (rev shape) f).
Definition ravel (shape idx : list nat) : nat :=
  ravel_r (rev shape) (rev idx).

Definition prodl (l : list nat) : nat := fold_right Nat.mul 1 l.

Fixpoint index_of (p : nat) (l : list nat) : nat :=
  match l with
  | [] => 0
  | x :: t => if Nat.eqb x p then 0 else S (index_of p t)
  end.

(* a.transpose(axes): out.shape[k] = a.shape[axes[k]] and
   out[i_0..] = a[j_0..] with j[axes[k]] = i[k]. *)
Definition tr_shape (axes shape : list nat) : list nat :=
  map (fun a => nth a shape 0) axes.

Definition tr_src (axes shape : list nat) (g : nat) : nat :=
  let i := unravel (tr_shape axes shape) g in
  let j := map (fun p => nth (index_of p axes) i 0) (seq 0 (length shape)) in
  ravel shape j.

Section Shuffle.
  Context {T : Type}.
  Variable dflt : T.

  (* data.reshape(shape).transpose(axes).reshape(-1) on flat C-order data *)
  Definition np_transpose (axes shape : list nat) (data : list T) : list T :=
    map (fun g => nth (tr_src axes shape g) data dflt) (seq 0 (length data)).
End Shuffle.

(* ------------------------------------------------------------------ Qobj *)
Inductive rep := Super | Choi | Chi.

(* dims = [[a, b], [c, d]] with a b c d lists of subsystem sizes *)
Definition sdims := ((list nat * list nat) * (list nat * list nat))%type.

Record sobj (T : Type) := mkS { s_data : list T; s_dims : sdims; s_rep : rep }.
Arguments mkS {T}. Arguments s_data {T}. Arguments s_dims {T}. Arguments s_rep {T}.

Definition s_rows {T} (q : sobj T) : nat :=
  let '((a, b), (c, d)) := s_dims q in prodl a * prodl b.
Definition s_cols {T} (q : sobj T) : nat :=
  let '((a, b), (c, d)) := s_dims q in prodl c * prodl d.

Inductive res (A : Type) := Ok (a : A) | ValueError | TypeError | IndexError.
Arguments Ok {A}. Arguments ValueError {A}. Arguments TypeError {A}. Arguments IndexError {A}.

Definition rbind {A B} (x : res A) (f : A -> res B) : res B :=
  match x with Ok a => f a | ValueError => ValueError | TypeError => TypeError
  | IndexError => IndexError end.

(* the literal constants of _super_tofrom_choi *)
Definition shuffle_axes : list nat := [3; 1; 2; 0].
Definition shuffle_shape (s0 s1 : nat) : list nat := [s0; s1; s0; s1].

Definition flip_rep (r : rep) : rep :=
  match r with Choi => Super | _ => Choi end.

(* the dims bookkeeping of _super_tofrom_choi: dims = [[a, b], [c, d]] *)
Definition shuffle_new_dims (dm : sdims) : sdims :=
  let '((a, b), (c, d)) := dm in ((d, b), (c, a)).
Definition shuffle_s0 (dm : sdims) : nat := let '((a, b), (c, d)) := dm in prodl a.
Definition shuffle_s1 (dm : sdims) : nat := let '((a, b), (c, d)) := dm in prodl d.
Definition sdims_d0 (dm : sdims) : nat := let '((a, b), (c, d)) := dm in prodl (a ++ b).
Definition sdims_d1 (dm : sdims) : nat := let '((a, b), (c, d)) := dm in prodl (c ++ d).

(* superop_reps.py::_super_tofrom_choi *)
Definition super_tofrom_choi {T} (dflt : T) (q : sobj T) : res (sobj T) :=
  match s_rep q with
  | Chi => ValueError            (* "operator is not in super or choi format" *)
  | _ =>
    let new_dims := shuffle_new_dims (s_dims q) in
    let d0 := sdims_d0 new_dims in        (* np.prod(flatten(new_dims[0])) *)
    let d1 := sdims_d1 new_dims in
    let s0 := shuffle_s0 (s_dims q) in
    let s1 := shuffle_s1 (s_dims q) in
    let size := length (s_data q) in
    if negb (size =? s0 * s1 * s0 * s1) then ValueError      (* first reshape *)
    else if negb (size =? d0 * d1) then ValueError           (* second reshape *)
    else Ok (mkS (np_transpose dflt shuffle_axes (shuffle_shape s0 s1) (s_data q))
                 new_dims (flip_rep (s_rep q)))
  end.

(* ------------------------------------------------------ Gaussian integers *)
Definition GZ := (Z * Z)%type.
Definition g0 : GZ := (0, 0)%Z.
Definition g1 : GZ := (1, 0)%Z.
Definition gi : GZ := (0, 1)%Z.
Definition gadd (x y : GZ) : GZ := (fst x + fst y, snd x + snd y)%Z.
Definition gmul (x y : GZ) : GZ :=
  (fst x * fst y - snd x * snd y, fst x * snd y + snd x * fst y)%Z.
Definition gconj (x : GZ) : GZ := (fst x, - snd x)%Z.
Definition gopp (x : GZ) : GZ := (- fst x, - snd x)%Z.
Definition geqb (x y : GZ) : bool := Z.eqb (fst x) (fst y) && Z.eqb (snd x) (snd y).
Definition gsum (l : list GZ) : GZ := fold_right gadd g0 l.
Definition gofnat (n : nat) : GZ := (Z.of_nat n, 0%Z).

(* flat row-major matrix helpers *)
Definition mget (data : list GZ) (ncols r c : nat) : GZ := nth (r * ncols + c) data g0.
Definition mbuild (nr nc : nat) (f : nat -> nat -> GZ) : list GZ :=
  flat_map (fun r => map (fun c => f r c) (seq 0 nc)) (seq 0 nr).
Definition mmul (n k m : nat) (A B : list GZ) : list GZ :=
  mbuild n m (fun r c => gsum (map (fun x => gmul (mget A k r x) (mget B m x c)) (seq 0 k))).
Definition madj (n m : nat) (A : list GZ) : list GZ :=      (* A is n x m *)
  mbuild m n (fun r c => gconj (mget A m c r)).

(* ------------------------------------------------------------- operators *)
(* a type='oper' Qobj: shape m x n, dims [dl, dr] *)
Record oper := mkO { o_m : nat; o_n : nat; o_dl : list nat; o_dr : list nat;
                     o_data : list GZ }.

(* superoperator.py::sprepost(A, A.dag()): kron_transpose(B, A) = kron(B^T, A)
   with B = A^dag, i.e. kron(conj A, A); dims [[A.dims[0], B.dims[1]],
   [A.dims[1], B.dims[0]]] *)
Definition drop1 (l : list nat) : list nat := filter (fun d => negb (d =? 1)) l.
Definition is_nil {A} (l : list A) : bool := match l with [] => true | _ => false end.

(* _drop_projected_dims removes the size-1 subsystems from the labels; a
   label list that becomes empty makes the Qobj constructor raise ValueError *)
Definition sprepost_dag (A : oper) : res (sobj GZ) :=
  let m := o_m A in let n := o_n A in
  let dl := drop1 (o_dl A) in let dr := drop1 (o_dr A) in
  if is_nil dl || is_nil dr then ValueError else
  Ok (mkS (mbuild (m * m) (n * n) (fun r c =>
         gmul (gconj (mget (o_data A) n (r / m) (c / n)))
              (mget (o_data A) n (r mod m) (c mod n))))
      ((dl, dl), (dr, dr)) Super).

(* np.reshape(K.full(), len_op, order="F")[I] *)
Definition vecF (K : oper) (I : nat) : GZ :=
  mget (o_data K) (o_n K) (I mod o_m K) (I / o_m K).

(* superop_reps.py::kraus_to_choi *)
Definition kraus_to_choi (Ks : list oper) : res (sobj GZ) :=
  match Ks with
  | [] => TypeError                       (* kraus_ops[0] : IndexError *)
  | K0 :: _ =>
    let len_op := o_m K0 * o_n K0 in
    if negb (forallb (fun K => (o_m K * o_n K =? len_op)) Ks) then ValueError
    else
    Ok (mkS (mbuild len_op len_op (fun I J =>
               gsum (map (fun K => gmul (vecF K I) (gconj (vecF K J))) Ks)))
            ((o_dr K0, o_dl K0), (o_dr K0, o_dl K0)) Choi)   (* [kraus_ops[0].dims[::-1]] * 2 *)
  end.

(* -------------------------------------------------------------- Pauli / chi *)
(* _SINGLE_QUBIT_PAULI_BASIS: identity, sigmax, sigmay, sigmaz *)
Definition pauli1 (k r c : nat) : GZ :=
  match k, r, c with
  | 0, 0, 0 => g1 | 0, 1, 1 => g1
  | 1, 0, 1 => g1 | 1, 1, 0 => g1
  | 2, 0, 1 => gopp gi | 2, 1, 0 => gi
  | 3, 0, 0 => g1 | 3, 1, 1 => gopp g1
  | _, _, _ => g0
  end.

(* itertools.product(basis, repeat=nq) with successive kron: string number k
   has its first factor in the most significant base-4 digit; the Kronecker
   product puts the first factor in the most significant bit. *)
Fixpoint pauli_str (nq k r c : nat) : GZ :=
  match nq with
  | 0 => g1
  | S n => gmul (pauli_str n (k / 4) (r / 2) (c / 2)) (pauli1 (k mod 4) (r mod 2) (c mod 2))
  end.

(* _superpauli_basis(nq).data : row k of the CSR scratch is the column
   stacking of string k; the result is its transpose, so
   B[I, k] = (vec P_k)[I],  I = col * 2^nq + row. *)
Definition superpauli (nq : nat) : list GZ :=
  let d := 2 ^ nq in
  mbuild (d * d) (d * d) (fun I k => pauli_str nq k (I mod d) (I / d)).

(* int(x).bit_length() - 1 *)
Fixpoint log2_fuel (fuel x : nat) : nat :=
  match fuel with
  | 0 => 0
  | S f => if x <=? 1 then 0 else S (log2_fuel f (x / 2))
  end.
Definition int_log_two (x : nat) : nat := log2_fuel x x.

(* superop_reps.py::_nq *)
Definition nq_of {T} (q : sobj T) : res nat :=
  let '((a, b), (c, d)) := s_dims q in
  let dim := prodl a in
  let nq := int_log_two dim in
  if 2 ^ nq =? dim then Ok nq else ValueError.

(* superop_reps.py::_choi_to_chi : B^dag J B, same dims, tag chi *)
Definition choi_to_chi (q : sobj GZ) : res (sobj GZ) :=
  rbind (nq_of q) (fun nq =>
    let N := 4 ^ nq in
    if nq =? 0 then IndexError else       (* _superpauli_basis(0): paulis[0] of an empty tuple *)
    if negb ((s_rows q =? N) && (s_cols q =? N)) then ValueError  (* matmul shapes *)
    else
      let B := superpauli nq in
      Ok (mkS (mmul N N N (mmul N N N (madj N N B) (s_data q)) B) (s_dims q) Chi)).

(* superop_reps.py::_chi_to_choi : (B chi B^dag) * (1 / shape[0]).  The model
   returns the numerator and the integer shape[0] separately. *)
Definition chi_to_choi (q : sobj GZ) : res (sobj GZ * nat) :=
  rbind (nq_of q) (fun nq =>
    let N := 4 ^ nq in
    if nq =? 0 then IndexError else
    if negb ((s_rows q =? N) && (s_cols q =? N)) then ValueError
    else
      let B := superpauli nq in
      Ok (mkS (mmul N N N (mmul N N N B (s_data q)) (madj N N B)) (s_dims q) Choi,
          s_rows q)).

(* --------------------------------------------------------------- dispatch *)
Inductive qobj := QOper (A : oper) | QSuper (q : sobj GZ) | QOther.

(* to_choi, for inputs whose data is exact (the chi branch divides and is
   modelled by chi_to_choi above) *)
Definition to_choi (x : qobj) : res (sobj GZ) :=
  match x with
  | QSuper q => match s_rep q with
                | Choi => Ok q
                | Super => super_tofrom_choi g0 q
                | Chi => TypeError          (* not an exact conversion: see chi_to_choi *)
                end
  | QOper A => rbind (sprepost_dag A) (super_tofrom_choi g0)
  | QOther => TypeError
  end.

Definition to_super (x : qobj) : res (sobj GZ) :=
  match x with
  | QSuper q => match s_rep q with
                | Super => Ok q
                | Choi => super_tofrom_choi g0 q
                | Chi => TypeError
                end
  | QOper A => sprepost_dag A
  | QOther => TypeError
  end.

Definition to_chi (x : qobj) : res (sobj GZ) :=
  match x with
  | QSuper q => match s_rep q with
                | Chi => Ok q
                | Choi => choi_to_chi q
                | Super => rbind (to_choi x) choi_to_chi
                end
  | QOper A => rbind (rbind (sprepost_dag A) (super_tofrom_choi g0)) choi_to_chi
  | QOther => TypeError
  end.

(* ------------------------------------------------------------- predicates *)
Definition is_herm_mat (n : nat) (data : list GZ) : bool :=
  forallb (fun r => forallb (fun c => geqb (mget data n r c) (gconj (mget data n c r)))
                            (seq 0 n)) (seq 0 n).

(* qobj.py::Qobj.ishp : to_choi(self).isherm, any exception -> False *)
Definition ishp (x : qobj) : bool :=
  match to_choi x with
  | Ok J => (s_rows J =? s_cols J) && is_herm_mat (s_rows J) (s_data J)
  | _ => false
  end.

(* partial trace keeping the first of two factors [n0, n1] of a square
   (n0 n1) x (n0 n1) matrix *)
Definition ptrace_keep0 (n0 n1 : nat) (data : list GZ) : list GZ :=
  mbuild n0 n0 (fun i j =>
    gsum (map (fun a => mget data (n0 * n1) (i * n1 + a) (j * n1 + a)) (seq 0 n1))).

(* the matrix equals k times the identity (k = 1 for exact Choi data; a chi
   matrix is converted by _chi_to_choi, whose exact numerator carries the
   factor shape[0]) *)
Definition is_identity_scaled (k : GZ) (n : nat) (data : list GZ) : bool :=
  forallb (fun r => forallb (fun c => geqb (mget data n r c) (if r =? c then k else g0))
                            (seq 0 n)) (seq 0 n).
Definition is_identity (n : nat) (data : list GZ) : bool := is_identity_scaled g1 n data.

(* qobj.py::Qobj.istp on a super-type object whose data is exact:
   choi objects are used as they are, anything else (super, chi, oper) goes
   through to_choi; dims are collapsed; ptrace([0]) (ValueError when dims[0] !=
   dims[1]) must be the identity.  The boolean is None when the code raises. *)
Definition istp_sobj_scaled (k : GZ) (q : sobj GZ) : option bool :=
  let '((a, b), (c, d)) := s_dims q in
  let n0 := prodl a in let n1 := prodl b in
  if negb ((prodl c =? n0) && (prodl d =? n1)) then None    (* ptrace ValueError *)
  else Some (is_identity_scaled k n0 (ptrace_keep0 n0 n1 (s_data q))).
Definition istp_sobj (q : sobj GZ) : option bool := istp_sobj_scaled g1 q.

Definition istp (x : qobj) : option bool :=
  match x with
  | QOther => Some false
  | QSuper q =>
      match s_rep q with
      | Super => match to_choi x with Ok J => istp_sobj J | _ => None end
      | Choi => istp_sobj q
      | Chi => match chi_to_choi q with
               | Ok (J, N) => istp_sobj_scaled (gofnat N) J
               | _ => None
               end
      end
  | QOper _ => match to_choi x with Ok J => istp_sobj J | _ => None end
  end.

(* ------------------------------------------------- Stinespring assembly *)
(* superop_reps.py::_svd_u_to_kraus: (U * S) is (dO*dI) x dK;
   reshape((dO, dI, dK), order='F').transpose((2, 0, 1)) :
   K_k[a, i] = (U*S)[a + dO*i, k], dims [outdims, indims] *)
Definition svd_u_to_kraus (U : list GZ) (S : list GZ) (dO dI dK : nat)
    (indims outdims : list nat) : list oper :=
  map (fun k => mkO dO dI outdims indims
        (mbuild dO dI (fun a i => gmul (mget U dK (a + dO * i) k) (nth k S g0))))
      (seq 0 dK).

(* _choi_to_stinespring block assembly: A = sum_k tensor(K_k, basis(dK, k)),
   a (dL*dK) x dR matrix with A[(a*dK + k), i] = K_k[a, i] *)
Definition stinespring_block (Ks : list oper) (dL dR : nat) : list GZ :=
  let dK := length Ks in
  mbuild (dL * dK) dR (fun r i =>
    mget (o_data (nth (r mod dK) Ks (mkO 0 0 [] [] []))) dR (r / dK) i).

(* -------------------------------------------------------- observable forms *)
Definition show_dims (d : sdims) : list (list nat) :=
  let '((a, b), (c, e)) := d in [a; b; c; e].
Definition rep_code (r : rep) : nat := match r with Super => 0 | Choi => 1 | Chi => 2 end.

Definition observe (r : res (sobj GZ)) : option (list GZ * list (list nat) * nat) :=
  match r with
  | Ok q => Some (s_data q, show_dims (s_dims q), rep_code (s_rep q))
  | _ => None
  end.
Definition err_code {A} (r : res A) : nat :=
  match r with Ok _ => 0 | ValueError => 1 | TypeError => 2 | IndexError => 3 end.
