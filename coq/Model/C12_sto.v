(* Model of the numeric accessors of qutip/solver/stochastic.py
   StochasticTrajResult: dW, wiener_process, measurement (index bookkeeping:
   which noise increment, which time step, which expectation value enters
   entry [i][j]), and of StochasticResult._trajectories_attr /_reduce_attr.

   Noise increments, expectation values of the m_ops and times are integers
   in the model; a measurement entry is kept symbolic as
       (mnum, mden, snum, dt)   meaning   mnum/mden + snum/dt
   (mden = 1, or 2 for the 'middle' convention; snum = dW_factor[i] *
   noise[j][i]; dt = times[j+1] - times[j]).  No proofs in this file. *)
From Coq Require Import List ZArith Bool Arith.
Import ListNotations.
Local Open Scope Z_scope.

Inductive smopt := SMOff | SMStart | SMMiddle | SMEnd | SMOther.
(* options["store_measurement"]: "" / False -> SMOff, "start", "middle",
   "end" or True -> SMEnd, any other truthy value -> SMOther *)

Inductive serror := SValueError | SIndexError.
(* SIllShaped: the record breaks the shape invariant of a trajectory result
   (len(noise) = len(times) - 1, all noise vectors of one length, one
   dW_factor and one m_expect row per noise component, m_expect rows of
   len(times), an even number of components for heterodyne).  What numpy does
   then (an error, or silent broadcasting of size-1 axes) is NOT modelled;
   Props/C12.v proves the invariant for every record produced by a run. *)
Inductive sres (A : Type) := SOk (a : A) | SNone | SRaise (e : serror) | SIllShaped.
Arguments SOk {A} a.
Arguments SNone {A}.
Arguments SRaise {A} e.
Arguments SIllShaped {A}.

Record straj := {
  st_times : list Z;
  st_noise : list (list Z);          (* one vector per integration step *)
  st_mexp : list (list Z);           (* m_expect: one row per m_op, one entry per time *)
  st_factor : list Z;                (* dW_factor *)
  st_opt : smopt;
  st_het : bool }.

Definition nrows (noise : list (list Z)) : nat :=
  match noise with [] => 0%nat | v :: _ => length v end.

Definition rectangular (noise : list (list Z)) : bool :=
  forallb (fun v => Nat.eqb (length v) (nrows noise)) noise.

(* np.array(self.noise).T : row i, column j = noise[j][i] *)
Definition noise_T (noise : list (list Z)) : list (list Z) :=
  map (fun i => map (fun v => nth i v 0) noise) (seq 0 (nrows noise)).

(* reshape(-1, 2, ncols) of a 2-d array with an even number of rows *)
Fixpoint pair_rows {A} (rows : list A) : list (A * A) :=
  match rows with
  | a :: b :: r => (a, b) :: pair_rows r
  | _ => []
  end.

Inductive shaped (A : Type) := Homodyne (rows : list A) | Heterodyne (rows : list (A * A)).
Arguments Homodyne {A} rows.
Arguments Heterodyne {A} rows.

Definition shape_rows {A} (het : bool) (rows : list A) : sres (shaped A) :=
  if het then
    if Nat.even (length rows) then SOk (Heterodyne (pair_rows rows)) else SIllShaped
  else SOk (Homodyne rows).

(* StochasticTrajResult.dW *)
Definition dW (r : straj) : sres (shaped (list Z)) :=
  match st_noise r with
  | [] => if st_het r then SRaise SIndexError      (* noise.shape[1] of a 1-d empty array *)
          else SOk (Homodyne [])
  | _ => if rectangular (st_noise r) then shape_rows (st_het r) (noise_T (st_noise r))
         else SIllShaped
  end.

(* np.cumsum *)
Fixpoint cumsum (acc : Z) (l : list Z) : list Z :=
  match l with [] => [] | x :: t => (acc + x) :: cumsum (acc + x) t end.

(* StochasticTrajResult.wiener_process:
     W = zeros((noise[0].shape[0], len(times)))
     np.cumsum(np.array(noise).T, axis=1, out=W[:, 1:]) *)
Definition wiener_process (r : straj) : sres (shaped (list Z)) :=
  match st_noise r with
  | [] => SRaise SIndexError                        (* self.noise[0] *)
  | _ =>
      if rectangular (st_noise r)
         && Nat.eqb (S (length (st_noise r))) (length (st_times r))
      then shape_rows (st_het r) (map (fun row => 0 :: cumsum 0 row) (noise_T (st_noise r)))
      else SIllShaped
  end.

(* np.diff *)
Fixpoint diffz (l : list Z) : list Z :=
  match l with
  | x :: ((y :: _) as r) => (y - x) :: diffz r
  | _ => []
  end.

Definition entry := (Z * Z * Z * Z)%type.            (* (mnum, mden, snum, dt) *)

(* the expectation part of row i under each convention:
     'start'  m_expect[:, :-1]      'end'  m_expect[:, 1:]
     'middle' np.convolve(m, [0.5, 0.5], "valid") = (m[j] + m[j+1]) / 2 *)
Fixpoint pair_sums (l : list Z) : list Z :=
  match l with
  | x :: ((y :: _) as r) => (x + y) :: pair_sums r
  | _ => []
  end.

Definition mpart (o : smopt) (row : list Z) : list (Z * Z) :=
  match o with
  | SMStart => map (fun m => (m, 1)) (removelast row)
  | SMEnd => map (fun m => (m, 1)) (tl row)
  | SMMiddle => map (fun m => (m, 2)) (pair_sums row)
  | _ => []
  end.

(* einsum("i,ij,j->ij", dW_factor, noise.T, 1/np.diff(times)) *)
Definition noise_scaled (f : list Z) (nT : list (list Z)) (dts : list Z) : list (list (Z * Z)) :=
  map (fun fr => map (fun nd => (fst fr * fst nd, snd nd)) (combine (snd fr) dts))
      (combine f nT).

Definition add_rows (m : list (Z * Z)) (s : list (Z * Z)) : list entry :=
  map (fun ms => (fst (fst ms), snd (fst ms), fst (snd ms), snd (snd ms))) (combine m s).

(* StochasticTrajResult.measurement *)
Definition measurement (r : straj) : sres (shaped (list entry)) :=
  match st_opt r with
  | SMOff => SNone
  | o =>
      match st_mexp r with
      | [] => shape_rows false []          (* np.empty((0, ..., len(times) - 1)) *)
      | _ =>
          match o with
          | SMOther => SRaise SValueError
          | _ =>
              let nT := noise_T (st_noise r) in
              let dts := diffz (st_times r) in
              if rectangular (st_noise r)
                 && negb (Nat.eqb (length nT) 0)
                 && Nat.eqb (length (st_factor r)) (length nT)
                 && Nat.eqb (length (st_noise r)) (length dts)
                 && Nat.eqb (length (st_mexp r)) (length nT)
                 && forallb (fun row => Nat.eqb (length row) (length (st_times r))) (st_mexp r)
              then shape_rows (st_het r)
                     (map (fun ms => add_rows (mpart o (fst ms)) (snd ms))
                          (combine (st_mexp r) (noise_scaled (st_factor r) nT dts)))
              else SIllShaped
          end
      end
  end.

(* ---------------------------------------------------------- StochasticResult
   _post_init: with `not keep_runs_results and store_measurement` the
   attributes of every added trajectory are appended to self._<attr>;
   _trajectories_attr(attr): that list if it exists, else the array over
   the kept trajectories if keep_runs_results, else None *)
Definition traj_attr {A} (keep : bool) (store : bool) (per_traj : list A) : sres (list A) :=
  if negb keep && store then SOk per_traj
  else if keep then SOk per_traj
  else SNone.

Definition st_observe (r : straj) := (dW r, wiener_process r, measurement r).
