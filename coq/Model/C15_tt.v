(* Model of MultiTrajResult._target_tolerance_end / _average_computer
   (qutip/solver/multitrajresult.py): the value `add` returns when a target
   tolerance was set with add_end_condition(ntraj, target_tol) - an estimate of
   the number of trajectories still needed; the map stops when it is <= 0.

   Inputs: _target_ntraj, num_trajectories, the running sums of the sampled
   trajectories (sum_expect, sum2_expect of _sum_rel, flattened over e_ops and
   times), the (atol, rtol) pair of the e_op of every component, and
   _deterministic_weight_info.  np.inf is TInf.  stats["end_condition"] is
   the flag: 1 = "ntraj reached", 2 = "target tolerance reached", 0 = left
   unchanged.  abs(avg)**2 is |avg| * |avg|; np.max over the components is
   vmaxQ (0 for an empty vector, where numpy raises).  Division by a zero
   target (inf / nan in floats) is outside the model: Qc division by zero
   gives 0, and the theorems that need it assume target_k <> 0. *)
From Coq Require Import List ZArith QArith Qcanon Bool Arith Lia.
Import ListNotations.
From QV Require Import Model.C15.
Local Open Scope Qc_scope.

Inductive tres := TInf | TVal (v : Qc).

Definition qmax (a b : Qc) : Qc := if Qclt_le_dec a b then b else a.
Definition qmin (a b : Qc) : Qc := if Qclt_le_dec b a then b else a.
Definition vmaxQ (v : vec) : Qc := match v with [] => 0 | x :: r => fold_left qmax r x end.

Fixpoint pysum (l : list Qc) (acc : Qc) : Qc := match l with [] => acc | x :: r => pysum r (acc + x) end.

Record ttin := {
  tt_target : nat; tt_num : nat; tt_s1 : vec; tt_s2 : vec;
  tt_atol : vec; tt_rtol : vec; tt_wdet : list Qc }.

Definition tt_avg (i : ttin) : vec := vdivn (tt_s1 i) (tt_num i).
Definition tt_avg2 (i : ttin) : vec := vdivn (tt_s2 i) (tt_num i).
(* target = atol + rtol * mean *)
Definition tt_tol (i : ttin) : vec :=
  map2 (fun m ar => fst ar + snd ar * m) (tt_avg i) (combine (tt_atol i) (tt_rtol i)).
(* `one`: 1, or 1 - sum(det weights) when that sum is non-zero *)
Definition tt_one (i : ttin) : Qc :=
  let s := pysum (tt_wdet i) 0 in if Qc_eq_bool s 0 then 1 else 1 - s.
(* std = avg2 * one - abs(avg)**2 *)
Definition tt_std (i : ttin) : vec :=
  map2 (fun a2 a => a2 * tt_one i - Qcabs a * Qcabs a) (tt_avg2 i) (tt_avg i).
Definition tt_ratio (i : ttin) : vec := map2 (fun s t => s / (t * t)) (tt_std i) (tt_tol i).

Definition tt_end (i : ttin) : tres * Z :=
  if (tt_target i <=? tt_num i)%nat then (TVal 0, 1%Z)
  else if (tt_num i <=? 1)%nat then (TInf, 0%Z)
  else
    let tn := vmaxQ (tt_ratio i) + 1 in
    let est := qmin (tn - QcN (tt_num i)) (QcN (tt_target i) - QcN (tt_num i)) in
    (TVal est, if Qclt_le_dec 0 est then 0%Z else 2%Z).

(* harness *)
Definition tmkv (e : list (Z * Z)) : vec := map (fun nd => mkq (fst nd) (snd nd)) e.
Definition tt_obs (target num : nat) (s1 s2 atol rtol wdet : list (Z * Z)) :=
  let r := tt_end {| tt_target := target; tt_num := num; tt_s1 := tmkv s1; tt_s2 := tmkv s2;
                     tt_atol := tmkv atol; tt_rtol := tmkv rtol; tt_wdet := tmkv wdet |} in
  (match fst r with TInf => (1%Z, (0%Z, 1%Z)) | TVal v => (0%Z, qz v) end, snd r).
