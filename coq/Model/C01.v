(* C01 - storage formats of qutip.core.data and kernels that move between them.

   Executable model (no proofs here).  Everything is parametrised by the
   carrier C of matrix entries (a commutative ring with a conjugation); the
   section is instantiated at Gaussian integers Z*Z at the end of the file
   for the correspondence runs.

   Storage formats
     dense : shape, memory order flag `fortran`, flat `data`
             (dense.pyx: data[i*nc + j] in C order, data[i + j*nr] in F order)
     csr   : shape and the rows; row r is the list of (column, value) pairs
             stored between indptr[r] and indptr[r+1], in storage order.
             `csr_of_raw` / `indptr_of` / `indices_of` / `data_of` go to and
             from the three raw arrays, so kernels are run on - and compared
             with - the raw arrays of real objects.
     dia   : shape and the stored diagonals (offset, row of `nc` slots), slot
             `col` of diagonal `off` is entry (col - off, col) (dia.pyx)

   Loops that scatter into a zeroed output (dense.from_csr, Dia.to_array) are
   written in gather form: output slot k holds what the loop writes there.  *)
From Coq Require Import List ZArith Bool Arith Lia.
Import ListNotations.

Section Kernels.
Variable C : Type.
Variables (c0 c1 : C) (cadd cmul : C -> C -> C) (copp cconj : C -> C).
Variable is0 : C -> bool.          (* value == 0 *)
Variable ceqb : C -> C -> bool.    (* a == b *)
Variable small : C -> bool.        (* |v|^2 <= auto_tidyup_atol^2 (csr.from_dense) *)
Variable tidy : C -> C.            (* acc_gather: real / imaginary part below tol set to 0 *)

(* ---------------------------------------------------------------- dense *)
Record dense := { d_nr : nat; d_nc : nat; d_fortran : bool; d_data : list C }.

Definition didx (nr nc : nat) (fortran : bool) (i j : nat) : nat :=
  if fortran then i + j * nr else i * nc + j.

Definition den_dense (d : dense) (i j : nat) : C :=
  if (i <? d_nr d) && (j <? d_nc d)
  then nth (didx (d_nr d) (d_nc d) (d_fortran d) i j) (d_data d) c0 else c0.

Definition wf_dense (d : dense) : Prop := length (d_data d) = d_nr d * d_nc d.

(* position k of a flat buffer in the given order -> (row, column) *)
Definition dunidx (nr nc : nat) (fortran : bool) (k : nat) : nat * nat :=
  if fortran then (k mod nr, k / nr) else (k / nc, k mod nc).

Definition tabulate (nr nc : nat) (fortran : bool) (f : nat -> nat -> C) : list C :=
  map (fun k => let p := dunidx nr nc fortran k in f (fst p) (snd p)) (seq 0 (nr * nc)).

(* ------------------------------------------------------------------ csr *)
Definition crow := list (nat * C).
Record csr := { s_nr : nat; s_nc : nat; s_rows : list crow }.

Definition row_get (j : nat) (row : crow) : C :=
  match find (fun p => fst p =? j) row with Some p => snd p | None => c0 end.

Definition den_csr (m : csr) (i j : nat) : C :=
  if (i <? s_nr m) && (j <? s_nc m) then row_get j (nth i (s_rows m) []) else c0.

(* CSR.to_array writes the stored entries in storage order: the last entry
   of a row with column j is what the array holds *)
Definition row_get_last (j : nat) (row : crow) : C := row_get j (rev row).

Definition wf_row (nc : nat) (row : crow) : Prop :=
  NoDup (map fst row) /\ (forall p, In p row -> fst p < nc).
Definition wf_csr (m : csr) : Prop :=
  length (s_rows m) = s_nr m /\ forall row, In row (s_rows m) -> wf_row (s_nc m) row.

Fixpoint indptr_from (acc : nat) (rows : list crow) : list nat :=
  match rows with [] => [] | r :: t => (acc + length r) :: indptr_from (acc + length r) t end.
Definition indptr_of (m : csr) : list nat := 0 :: indptr_from 0 (s_rows m).
Definition indices_of (m : csr) : list nat := map fst (concat (s_rows m)).
Definition data_of (m : csr) : list C := map snd (concat (s_rows m)).

Definition csr_of_raw (nr nc : nat) (indptr indices : list nat) (data : list C) : csr :=
  {| s_nr := nr; s_nc := nc;
     s_rows := map (fun r =>
                 let lo := nth r indptr 0 in let hi := nth (S r) indptr 0 in
                 combine (firstn (hi - lo) (skipn lo indices))
                         (firstn (hi - lo) (skipn lo data)))
               (seq 0 nr) |}.

(* csr.pyx::from_dense - row-major walk with the two strides *)
Definition csr_from_dense (d : dense) : csr :=
  let row_stride := if d_fortran d then 1 else d_nc d in
  let col_stride := if d_fortran d then d_nr d else 1 in
  {| s_nr := d_nr d; s_nc := d_nc d;
     s_rows := map (fun row =>
        flat_map (fun col =>
           let value := nth (row_stride * row + col * col_stride) (d_data d) c0 in
           if small value then [] else [(col, value)]) (seq 0 (d_nc d)))
        (seq 0 (d_nr d)) |}.

(* dense.pyx::from_csr(matrix, fortran) - zeroed buffer, every stored entry
   written at ptr_out + col*col_stride (gather form) *)
Definition dense_from_csr (fortran : bool) (m : csr) : dense :=
  {| d_nr := s_nr m; d_nc := s_nc m; d_fortran := fortran;
     d_data := tabulate (s_nr m) (s_nc m) fortran
                 (fun i j => row_get_last j (nth i (s_rows m) [])) |}.

(* adjoint.pyx::transpose_csr - counting sort on the column: output row c
   receives, in input row order, the entries with column c *)
Fixpoint col_entries (f : C -> C) (c : nat) (r : nat) (rows : list crow) : crow :=
  match rows with
  | [] => []
  | row :: t => map (fun p => (r, f (snd p))) (filter (fun p => fst p =? c) row)
                ++ col_entries f c (S r) t
  end.
Definition transpose_gen (f : C -> C) (m : csr) : csr :=
  {| s_nr := s_nc m; s_nc := s_nr m;
     s_rows := map (fun c => col_entries f c 0 (s_rows m)) (seq 0 (s_nc m)) |}.
Definition transpose_csr := transpose_gen (fun v => v).
Definition adjoint_csr := transpose_gen cconj.
Definition map_csr (f : C -> C) (m : csr) : csr :=
  {| s_nr := s_nr m; s_nc := s_nc m;
     s_rows := map (map (fun p => (fst p, f (snd p)))) (s_rows m) |}.
Definition conj_csr := map_csr cconj.
Definition neg_csr := map_csr copp.
Definition zeros_csr (nr nc : nat) : csr :=
  {| s_nr := nr; s_nc := nc; s_rows := repeat [] nr |}.
(* mul.pyx::mul_csr *)
Definition mul_csr (m : csr) (value : C) : csr :=
  if is0 value then zeros_csr (s_nr m) (s_nc m) else map_csr (cmul value) m.

(* adjoint.pyx dense kernels: the buffer is kept, the flag flips *)
Definition transpose_dense (d : dense) : dense :=
  {| d_nr := d_nc d; d_nc := d_nr d; d_fortran := negb (d_fortran d); d_data := d_data d |}.
Definition adjoint_dense (d : dense) : dense :=
  {| d_nr := d_nc d; d_nc := d_nr d; d_fortran := negb (d_fortran d);
     d_data := map cconj (d_data d) |}.
Definition map_dense (f : C -> C) (d : dense) : dense :=
  {| d_nr := d_nr d; d_nc := d_nc d; d_fortran := d_fortran d; d_data := map f (d_data d) |}.
Definition conj_dense := map_dense cconj.
Definition neg_dense := map_dense copp.
Definition mul_dense (d : dense) (value : C) := map_dense (cmul value) d.

(* Dense.reorder: the same matrix in the other memory order *)
Definition reorder_dense (d : dense) : dense :=
  {| d_nr := d_nr d; d_nc := d_nc d; d_fortran := negb (d_fortran d);
     d_data := tabulate (d_nr d) (d_nc d) (negb (d_fortran d)) (den_dense d) |}.

(* add.pyx::add_dense(left, right, scale): output in the order of `left`;
   equal orders: one zaxpy over the whole buffer; mixed orders: for each idx
   < dim2 a strided zaxpy  out[idx*dim1 + k] += scale*right[idx + k*dim2] *)
Definition add_dense (l r : dense) (scale : C) : option dense :=
  if negb ((d_nr l =? d_nr r) && (d_nc l =? d_nc r)) then None
  else
    let nrows := d_nr l in let ncols := d_nc l in
    Some {| d_nr := nrows; d_nc := ncols; d_fortran := d_fortran l;
      d_data :=
        if eqb (d_fortran l) (d_fortran r)
        then map (fun p => cadd (fst p) (cmul scale (snd p))) (combine (d_data l) (d_data r))
        else
          let dim1 := if d_fortran l then nrows else ncols in
          let dim2 := if d_fortran l then ncols else nrows in
          map (fun pos => let idx := pos / dim1 in let k := pos mod dim1 in
                 cadd (nth pos (d_data l) c0)
                      (cmul scale (nth (idx + k * dim2) (d_data r) c0)))
              (seq 0 (nrows * ncols)) |}.

(* add.pyx::iadd_dense(left, right, scale): the in-place variant.  Same two
   branches as add_dense - one zaxpy over the whole buffer when the orders are
   equal, otherwise for idx < dim2 a strided zaxpy
   left[idx*dim1 + k] += scale * right[idx + k*dim2]  with dim1, dim2 taken from
   the order of `left` - but stored into `left`, which is returned. *)
Definition iadd_dense (l r : dense) (scale : C) : option dense := add_dense l r scale.
(* add.pyx::sub_dense = add_dense(left, right, -1) *)
Definition sub_dense (l r : dense) (minus_one : C) : option dense := add_dense l r minus_one.

(* trace.pyx *)
Fixpoint trace_rows (r : nat) (rows : list crow) : C :=
  match rows with [] => c0 | row :: t => cadd (row_get r row) (trace_rows (S r) t) end.
Definition trace_csr (m : csr) : option C :=
  if s_nr m =? s_nc m then Some (trace_rows 0 (s_rows m)) else None.
Definition trace_dense (d : dense) : option C :=
  if d_nr d =? d_nc d
  then Some (fold_right (fun k acc => cadd (nth (k * (d_nr d + 1)) (d_data d) c0) acc) c0
                        (seq 0 (d_nr d)))
  else None.
Fixpoint diag_sum (f : nat -> C) (r n : nat) : C :=
  match n with O => c0 | S n' => cadd (f r) (diag_sum f (S r) n') end.

(* --- add.pyx::add_csr: two-pointer walk + scatter/gather accumulator ---- *)
(* order in which the walk of _add_csr(_scale) scatters one row: the head
   with the smaller column goes first, `b` on ties; heads are compared with
   the sentinel ncols+1 when a side is exhausted *)
Fixpoint merge_order (sentinel : nat) (fuel : nat) (ra rb : crow) : crow :=
  match fuel with
  | O => []
  | S fuel' =>
      match ra, rb with
      | [], [] => []
      | _, _ =>
        let col_a := match ra with [] => sentinel | p :: _ => fst p end in
        let col_b := match rb with [] => sentinel | p :: _ => fst p end in
        if col_a <? col_b
        then match ra with p :: ta => p :: merge_order sentinel fuel' ta rb | [] => [] end
        else match rb with p :: tb => p :: merge_order sentinel fuel' ra tb | [] => [] end
      end
  end.

(* Accumulator: `nonzero` = columns in first-touch order, values summed in
   scatter order (acc_scatter) *)
Fixpoint acc_scatter (acc : crow) (col : nat) (v : C) : crow :=
  match acc with
  | [] => [(col, v)]
  | (c, w) :: t => if c =? col then (c, cadd w v) :: t else (c, w) :: acc_scatter t col v
  end.
Definition scatter_all (l : crow) : crow :=
  fold_left (fun acc p => acc_scatter acc (fst p) (snd p)) l [].

Fixpoint insert_sorted (p : nat * C) (l : crow) : crow :=
  match l with
  | [] => [p]
  | q :: t => if fst p <=? fst q then p :: l else q :: insert_sorted p t
  end.
Definition sort_cols (l : crow) : crow := fold_right insert_sorted [] l.

(* acc_gather: columns ascending, value tidied, exact zeros dropped *)
Definition acc_gather (acc : crow) : crow :=
  flat_map (fun p => let v := tidy (snd p) in if is0 v then [] else [(fst p, v)])
           (sort_cols acc).

Definition scale_row (scale : C) (row : crow) : crow :=
  map (fun p => (fst p, cmul scale (snd p))) row.

Definition nnz (m : csr) : nat := length (concat (s_rows m)).

Definition add_csr (l r : csr) (scale : C) : option csr :=
  let scale_is_one := ceqb scale c1 in
  if negb ((s_nr l =? s_nr r) && (s_nc l =? s_nc r)) then None
  else if (nnz r =? 0) || is0 scale then Some l
  else if nnz l =? 0 then Some (if scale_is_one then r else map_csr (fun v => cmul v scale) r)
  else Some {| s_nr := s_nr l; s_nc := s_nc l;
       s_rows := map (fun ab =>
           let rb := if scale_is_one then snd ab else scale_row scale (snd ab) in
           acc_gather (scatter_all
             (merge_order (s_nc l + 1) (length (fst ab) + length rb) (fst ab) rb)))
         (combine (s_rows l) (s_rows r)) |}.

(* ------------------------------------------------------------- reshape *)
(* reshape.pyx::reshape_csr(matrix, n_rows_out, n_cols_out): the operand's
   rows are sorted (matrix.sort_indices()), the data array is copied as it
   is, entry (row, col) gets linear position loc = row*n_cols_in + col, output
   column loc mod n_cols_out, and the output row pointer counts the entries
   with loc / n_cols_out = r'.  Because loc increases along the sorted
   storage order, output row r' is the run of entries with that quotient. *)
Fixpoint locs (nc : nat) (r : nat) (rows : list crow) : crow :=
  match rows with
  | [] => []
  | row :: t => map (fun p => (r * nc + fst p, snd p)) (sort_cols row) ++ locs nc (S r) t
  end.
Definition reshape_csr (m : csr) (nr' nc' : nat) : option csr :=
  if negb (nr' * nc' =? s_nr m * s_nc m) || (nr' =? 0) || (nc' =? 0) then None
  else Some {| s_nr := nr'; s_nc := nc';
       s_rows := map (fun r' =>
           map (fun q => (fst q mod nc', snd q))
               (filter (fun q => fst q / nc' =? r') (locs (s_nc m) 0 (s_rows m))))
         (seq 0 nr') |}.

(* reshape_dense: a C-ordered operand keeps its buffer under the new shape;
   a Fortran-ordered one is re-laid out into a new Fortran-ordered buffer
   (the stride walk of the code, in gather form) *)
Definition reshape_dense (d : dense) (nr' nc' : nat) : option dense :=
  if negb (nr' * nc' =? d_nr d * d_nc d) || (nr' =? 0) || (nc' =? 0) then None
  else Some (
    if d_fortran d
    then {| d_nr := nr'; d_nc := nc'; d_fortran := true;
            d_data := tabulate nr' nc' true (fun i' j' =>
                        let loc := i' * nc' + j' in den_dense d (loc / d_nc d) (loc mod d_nc d)) |}
    else {| d_nr := nr'; d_nc := nc'; d_fortran := false; d_data := d_data d |}).

(* column_stack_csr = reshape_csr(transpose) to a single column *)
Definition column_stack_csr (m : csr) : option csr :=
  if s_nc m =? 1 then Some m
  else reshape_csr (transpose_csr m) (s_nr m * s_nc m) 1.
(* column_stack_dense: the Fortran-ordered flat buffer as one column *)
Definition column_stack_dense (d : dense) : dense :=
  {| d_nr := d_nr d * d_nc d; d_nc := 1; d_fortran := true;
     d_data := if d_fortran d then d_data d
               else tabulate (d_nr d) (d_nc d) true (den_dense d) |}.

(* -------------------------------------------------------------- matmul *)
(* matmul.pyx::_check_shape + matmul_csr(left, right, scale).  For output row
   i the walk visits the stored entries (j, a) of the left row in storage
   order and, for each, the stored entries (k, b) of right row j, adding a*b
   into sums[k]; a column touched for the first time is pushed on the head of
   a linked list, so the row is emitted in reverse first-touch order.  On
   emission the sum is tidied, exact zeros are dropped and the value is
   multiplied by `scale`.  (sums[] starts at 0: the first addition is 0 + a*b,
   which acc_scatter writes as a*b.)  The early return for empty operands
   gives the same all-empty rows as the walk. *)
Definition mm_terms (rows_r : list crow) (ra : crow) : crow :=
  flat_map (fun pa => map (fun pb => (fst pb, cmul (snd pa) (snd pb)))
                          (nth (fst pa) rows_r [])) ra.
Definition mm_emit (scale : C) (acc : crow) : crow :=
  flat_map (fun p => let v := tidy (snd p) in if is0 v then [] else [(fst p, cmul scale v)])
           (rev acc).
Definition matmul_csr (l r : csr) (scale : C) : option csr :=
  if negb (s_nc l =? s_nr r) then None
  else Some {| s_nr := s_nr l; s_nc := s_nc r;
               s_rows := map (fun ra => mm_emit scale (scatter_all (mm_terms (s_rows r) ra)))
                             (s_rows l) |}.

(* matmul_csr_dense_dense(left, right, scale, out): out := out + scale*l@r.
   The Fortran path (_matmul_csr_vector, one output column at a time) forms the
   row dot product  dot := a*b + dot  and then  out += scale*dot; the C path
   adds (scale*a)*b to the output entry for each stored a.  The C path runs
   only when `right` and `out` (if given) are both C-ordered; otherwise one of
   them is reordered to Fortran.  The result has the order of `out`, or of
   `right` when out is None. *)
Definition mcd_entry (fpath : bool) (scale : C) (ra : crow) (g : nat -> C) (out0 : C) : C :=
  if fpath
  then cadd out0 (cmul scale (fold_left (fun dot p => cadd (cmul (snd p) (g (fst p))) dot) ra c0))
  else fold_left (fun acc p => cadd acc (cmul (cmul scale (snd p)) (g (fst p)))) ra out0.
Definition matmul_csr_dense (l : csr) (r : dense) (scale : C) (out : option dense)
  : option dense :=
  if negb (s_nc l =? d_nr r) then None
  else if match out with
          | Some o => negb ((d_nr o =? s_nr l) && (d_nc o =? d_nc r)) | None => false end
  then None
  else
    let ford := match out with Some o => d_fortran o | None => d_fortran r end in
    let fpath := d_fortran r || ford in
    Some {| d_nr := s_nr l; d_nc := d_nc r; d_fortran := ford;
            d_data := tabulate (s_nr l) (d_nc r) ford (fun i k =>
               mcd_entry fpath scale (nth i (s_rows l) [])
                         (fun j => den_dense r j k)
                         (match out with Some o => den_dense o i k | None => c0 end)) |}.

(* ------------------------------------------------------ inner / expect *)
(* the CSR kernels read a ket through `data[row_index[j]]` when row j is not
   empty: the first stored entry of the row *)
Definition ket_at (rows : list crow) (j : nat) : option C :=
  match nth j rows [] with [] => None | p :: _ => Some (snd p) end.
(* sum += op.data[ptr] * state.data[row_index[col]] over one operator row *)
Definition rowdot (rows_s : list crow) (op_row : crow) : C :=
  fold_left (fun sum p => match ket_at rows_s (fst p) with
                          | Some sv => cadd sum (cmul (snd p) sv) | None => sum end) op_row c0.
Definition head_data (m : csr) : option C :=
  match concat (s_rows m) with [] => None | p :: _ => Some (snd p) end.

(* inner.pyx::_check_shape_inner (43afb17) + inner_csr *)
Definition inner_csr (l r : csr) (scalar_is_ket : bool) : option C :=
  if (negb (s_nr l =? 1) && negb (s_nc l =? 1)) || negb (s_nc r =? 1)
     || negb (s_nr l * s_nc l =? s_nr r) then None
  else if (s_nr l =? 1) && (s_nc l =? 1) && (s_nc r =? 1) then
    Some (match head_data l, head_data r with
          | Some a, Some b => cmul (if scalar_is_ket then cconj a else a) b
          | _, _ => c0 end)
  else if s_nr l =? 1 then
    Some (fold_left (fun out p => match ket_at (s_rows r) (fst p) with
                                  | Some b => cadd out (cmul (snd p) b) | None => out end)
                    (concat (s_rows l)) c0)
  else
    Some (fold_left (fun out row => match ket_at (s_rows l) row, ket_at (s_rows r) row with
                                    | Some a, Some b => cadd out (cmul (cconj a) b)
                                    | _, _ => out end)
                    (seq 0 (s_nr l)) c0).

(* inner.pyx::inner_op_csr *)
Definition inner_op_csr (l op r : csr) (scalar_is_ket : bool) : option C :=
  let left_shape := (s_nr l =? 1) || (s_nc l =? 1) in
  let left_op := ((s_nr l =? 1) && (s_nc l =? s_nr op)) || ((s_nc l =? 1) && (s_nr l =? s_nr op)) in
  if negb (left_shape && left_op && (s_nc op =? s_nr r) && (s_nc r =? 1)) then None
  else if (s_nc l =? 1) && (s_nr l =? 1) && (s_nr op =? 1) && (s_nc op =? 1) && (s_nc r =? 1) then
    Some (match head_data l, head_data op, head_data r with
          | Some a, Some o, Some b => cmul (cmul (if scalar_is_ket then cconj a else a) o) b
          | _, _, _ => c0 end)
  else if s_nr l =? 1 then
    Some (fold_left (fun out p =>
             cadd out (cmul (snd p) (rowdot (s_rows r) (nth (fst p) (s_rows op) []))))
           (concat (s_rows l)) c0)
  else
    Some (fold_left (fun out row => match ket_at (s_rows l) row with
             | Some a => cadd out (cmul (cconj a) (rowdot (s_rows r) (nth row (s_rows op) [])))
             | None => out end)
           (seq 0 (s_nr op)) c0).

(* expect.pyx::expect_csr: ket or density matrix *)
Definition expect_csr (op st : csr) : option C :=
  if s_nc st =? 1 then
    if negb (s_nc op =? s_nr st) || negb (s_nr op =? s_nc op) then None
    else Some (fold_left (fun out row => match ket_at (s_rows st) row with
                 | Some a => cadd out (cmul (cconj a) (rowdot (s_rows st) (nth row (s_rows op) [])))
                 | None => out end) (seq 0 (s_nr st)) c0)
  else
    if negb (s_nc op =? s_nr st) || negb (s_nr st =? s_nc st) || negb (s_nr op =? s_nc op)
    then None
    else Some (fold_left (fun out row =>
                 fold_left (fun out' p =>
                   match find (fun q => fst q =? row) (nth (fst p) (s_rows st) []) with
                   | Some q => cadd out' (cmul (snd p) (snd q)) | None => out' end)
                   (nth row (s_rows op) []) out)
               (seq 0 (s_nr op)) c0).

(* expect.pyx::expect_super_csr: rows 0, n+1, 2(n+1), ... with n = floor(sqrt N) *)
Definition expect_super_csr (op st : csr) : option C :=
  if negb (s_nc st =? 1) || negb (s_nc op =? s_nr st) || negb (s_nr op =? s_nc op) then None
  else let n := Nat.sqrt (s_nr st) in
    Some (fold_left (fun out t => cadd out (rowdot (s_rows st) (nth (t * (n + 1)) (s_rows op) [])))
                    (seq 0 n) c0).

(* the routes the Data / Dense / Dia specialisations take:
   expect_data(op, ket)      = inner(ket, op @ ket, True)   (scalar_is_ket: a 1x1
                               state is a ket and is conjugated)
   inner_op_*(l, op, r, flg) = inner(l, op @ r, flg)                            *)
Definition expect_via_inner (op st : csr) : option C :=
  match matmul_csr op st c1 with
  | Some v => inner_csr st v true
  | None => None
  end.
(* before the fix expect_data passed no flag: a 1x1 state was read as a bra *)
Definition old_expect_via_inner (op st : csr) : option C :=
  match matmul_csr op st c1 with
  | Some v => inner_csr st v false
  | None => None
  end.
Definition inner_op_via_product (l op r : csr) (flag : bool) : option C :=
  match matmul_csr op r c1 with
  | Some v => inner_csr l v flag
  | None => None
  end.

(* ---------------------------------------------------------------- kron *)
(* kron.pyx::kron_csr: output row row_l*nrows_r + row_r holds, for every
   entry of the left row (in storage order), the whole right row shifted to
   column col_l*ncols_r + col_r with the product of the values *)
Definition kron_csr (l r : csr) : csr :=
  {| s_nr := s_nr l * s_nr r; s_nc := s_nc l * s_nc r;
     s_rows := flat_map (fun ra =>
        map (fun rb =>
          flat_map (fun pa =>
            map (fun pb => (fst pa * s_nc r + fst pb, cmul (snd pa) (snd pb))) rb) ra)
          (s_rows r)) (s_rows l) |}.

(* reshape.pyx::column_unstack_dense(matrix, rows, inplace): the column's
   buffer read as a Fortran-ordered rows x cols matrix.  With inplace and a
   Fortran-flagged column the shape is changed in place; otherwise (also for a
   C-flagged column with inplace, after a warning) a new Fortran-ordered
   matrix is allocated and the buffer memcpy'd.  Either way the returned
   object is flagged Fortran, whatever the flag of the column. *)
Definition column_unstack_dense (d : dense) (rows : nat) : option dense :=
  if negb (d_nc d =? 1) || (rows =? 0) || negb (d_nr d mod rows =? 0) then None
  else Some {| d_nr := rows; d_nc := d_nr d / rows; d_fortran := true; d_data := d_data d |}.
(* column_unstack_csr = reshape_csr(matrix, cols, rows).transpose() *)
Definition column_unstack_csr (m : csr) (rows : nat) : option csr :=
  if negb (s_nc m =? 1) || (rows =? 0) || negb (s_nr m mod rows =? 0) then None
  else match reshape_csr m (s_nr m / rows) rows with
       | Some t => Some (transpose_csr t) | None => None end.

(* ------------------------------------------------------------------ dia *)
Record dia := { a_nr : nat; a_nc : nat; a_diags : list (Z * list C) }.

Definition in_diag (nr : nat) (off : Z) (i j : nat) : bool :=
  (Z.of_nat j - off =? Z.of_nat i)%Z && (i <? nr).

(* Dia.to_array: every stored diagonal writes its in-range slots, in storage
   order: the last stored diagonal with offset j - i is what the array holds *)
Definition den_dia (a : dia) (i j : nat) : C :=
  if (i <? a_nr a) && (j <? a_nc a) then
    match find (fun d => (fst d =? Z.of_nat j - Z.of_nat i)%Z) (rev (a_diags a)) with
    | Some d => nth j (snd d) c0 | None => c0 end
  else c0.
(* the value every summing kernel (csr.from_dia -> from_coo_pointers,
   clean_dia, SciPy) gives: duplicates of an offset add up *)
Definition den_dia_sum (a : dia) (i j : nat) : C :=
  if (i <? a_nr a) && (j <? a_nc a) then
    fold_left (fun acc d => if (fst d =? Z.of_nat j - Z.of_nat i)%Z
                            then cadd acc (nth j (snd d) c0) else acc) (a_diags a) c0
  else c0.
Definition wf_dia (a : dia) : Prop :=
  NoDup (map fst (a_diags a)) /\ forall d, In d (a_diags a) -> length (snd d) = a_nc a.

(* dense.pyx::from_dia = Dense(matrix.to_array()): a C-ordered NumPy array;
   Dense.__init__ takes the flag from PyArray_IS_F_CONTIGUOUS, which also
   holds for a single row or column *)
Definition dense_from_dia (a : dia) : dense :=
  let f := (a_nr a =? 1) || (a_nc a =? 1) in
  {| d_nr := a_nr a; d_nc := a_nc a; d_fortran := f;
     d_data := tabulate (a_nr a) (a_nc a) f (den_dia a) |}.

(* dia.pyx::from_dense (before tidyup_dia): all nr+nc-1 diagonals, offsets
   -(nr-1) .. nc-1, slot col of diagonal k holds matrix[col - off, col] *)
Definition dia_from_dense_full (d : dense) : dia :=
  {| a_nr := d_nr d; a_nc := d_nc d;
     a_diags := map (fun k =>
        let off := (Z.of_nat k - Z.of_nat (d_nr d) + 1)%Z in
        (off, map (fun col =>
            let row := (Z.of_nat col - off)%Z in
            if (0 <=? row)%Z && (row <? Z.of_nat (d_nr d))%Z
            then nth (didx (d_nr d) (d_nc d) (d_fortran d) (Z.to_nat row) col) (d_data d) c0
            else c0) (seq 0 (d_nc d))))
        (seq 0 (d_nr d + d_nc d - 1)) |}.

(* csr.pyx::from_dia -> from_coo_pointers: row i collects, diagonal by
   diagonal, the in-range slots; scatter/gather sums duplicates, sorts the
   columns and drops exact zeros (tol = 0) *)
Definition csr_from_dia (a : dia) : csr :=
  {| s_nr := a_nr a; s_nc := a_nc a;
     s_rows := map (fun i =>
        flat_map (fun p => if is0 (snd p) then [] else [p])
          (sort_cols (scatter_all
            (flat_map (fun d =>
               let col := (Z.of_nat i + fst d)%Z in
               if (0 <=? col)%Z && (col <? Z.of_nat (a_nc a))%Z
               then [(Z.to_nat col, nth (Z.to_nat col) (snd d) c0)] else [])
             (a_diags a)))))
        (seq 0 (a_nr a)) |}.

(* dia.pyx::from_csr: the set of offsets col - row of all stored entries
   (explicit zeros included), sorted; every stored entry is written at
   data[index of its offset, col] in storage order (the last write wins) *)
Fixpoint zinsert (x : Z) (l : list Z) : list Z :=
  match l with
  | [] => [x]
  | y :: t => if (x <? y)%Z then x :: l else if (x =? y)%Z then l else y :: zinsert x t
  end.
Fixpoint csr_offsets (r : nat) (rows : list crow) : list Z :=
  match rows with
  | [] => []
  | row :: t => map (fun p => (Z.of_nat (fst p) - Z.of_nat r)%Z) row ++ csr_offsets (S r) t
  end.
Definition dia_from_csr (m : csr) : dia :=
  {| a_nr := s_nr m; a_nc := s_nc m;
     a_diags := map (fun off =>
        (off, map (fun col =>
            let r := (Z.of_nat col - off)%Z in
            if (0 <=? r)%Z && (r <? Z.of_nat (s_nr m))%Z
            then row_get_last col (nth (Z.to_nat r) (s_rows m) []) else c0)
          (seq 0 (s_nc m))))
        (fold_right zinsert [] (csr_offsets 0 (s_rows m))) |}.

(* ------------------------------------------ add_dia / clean_dia / tidyup_dia *)
(* add.pyx::add_dia(left, right, scale): walk of the two stored offset lists
   (heads compared as in the code: equal -> zcopy left + zaxpy scale*right;
   left <= right -> copy left; else copy right and zscal it unless scale == 1),
   leftovers appended; if the produced offsets are not strictly increasing
   clean_dia runs; then tidyup_dia (auto_tidyup).  *)
Definition axpy_row (scale : C) (l r : list C) : list C :=
  map (fun p => cadd (fst p) (cmul scale (snd p))) (combine l r).
Definition scal_row (scale : C) (r : list C) : list C :=
  if ceqb scale c1 then r else map (cmul scale) r.
Fixpoint dia_merge (fuel : nat) (scale : C) (A B : list (Z * list C)) : list (Z * list C) :=
  match fuel with
  | O => []
  | S f =>
    match A, B with
    | (oa, da) :: ta, (ob, db) :: tb =>
        if (oa =? ob)%Z then (oa, axpy_row scale da db) :: dia_merge f scale ta tb
        else if (oa <=? ob)%Z then (oa, da) :: dia_merge f scale ta B
        else (ob, scal_row scale db) :: dia_merge f scale A tb
    | _, [] => A
    | [], _ => map (fun d => (fst d, scal_row scale (snd d))) B
    end
  end.
Fixpoint strictly_inc (l : list Z) : bool :=
  match l with
  | x :: t => match t with y :: _ => (x <? y)%Z && strictly_inc t | [] => true end
  | [] => true
  end.
(* dia.pyx::clean_dia, by its result: offsets sorted, data of equal offsets
   added up (in storage order), slots outside the matrix set to 0.  (The code
   is a selection sort that marks merged diagonals with the offset `ncols`;
   the raw result is tied to this description by the correspondence.) *)
Definition vadd (a b : list C) : list C := map (fun p => cadd (fst p) (snd p)) (combine a b).
Fixpoint dinsert (d : Z * list C) (L : list (Z * list C)) : list (Z * list C) :=
  match L with
  | [] => [d]
  | e :: t => if (fst d <? fst e)%Z then d :: L
              else if (fst d =? fst e)%Z then (fst e, vadd (snd e) (snd d)) :: t
              else e :: dinsert d t
  end.
Definition in_rng (nr : nat) (off : Z) (col : nat) : bool :=
  (0 <=? Z.of_nat col - off)%Z && (Z.of_nat col - off <? Z.of_nat nr)%Z.
Definition zero_outside (nr : nat) (d : Z * list C) : Z * list C :=
  (fst d, map (fun col => if in_rng nr (fst d) col then nth col (snd d) c0 else c0)
              (seq 0 (length (snd d)))).
Definition clean_diags (nr : nat) (L : list (Z * list C)) : list (Z * list C) :=
  map (zero_outside nr) (fold_left (fun acc d => dinsert d acc) L []).
(* tidyup.pyx::tidyup_dia: slots inside the matrix are tidied; a diagonal
   whose inside slots are all 0 afterwards is dropped (tol > 0 assumed) *)
Definition tidy_diag (nr : nat) (d : Z * list C) : Z * list C :=
  (fst d, map (fun col => if in_rng nr (fst d) col then tidy (nth col (snd d) c0)
                          else nth col (snd d) c0) (seq 0 (length (snd d)))).
Definition has_data (nr : nat) (d : Z * list C) : bool :=
  existsb (fun col => in_rng nr (fst d) col && negb (is0 (tidy (nth col (snd d) c0))))
          (seq 0 (length (snd d))).
Definition tidyup_diags (nr : nat) (L : list (Z * list C)) : list (Z * list C) :=
  map (tidy_diag nr) (filter (has_data nr) L).

Definition add_dia (a b : dia) (scale : C) : option dia :=
  if negb ((a_nr a =? a_nr b) && (a_nc a =? a_nc b)) then None
  else
    let M := dia_merge (length (a_diags a) + length (a_diags b)) scale (a_diags a) (a_diags b) in
    let M' := if strictly_inc (map fst M) then M else clean_diags (a_nr a) M in
    Some {| a_nr := a_nr a; a_nc := a_nc a; a_diags := tidyup_diags (a_nr a) M' |}.
Definition clean_dia (a : dia) : dia :=
  {| a_nr := a_nr a; a_nc := a_nc a; a_diags := clean_diags (a_nr a) (a_diags a) |}.
Definition tidyup_dia (a : dia) : dia :=
  {| a_nr := a_nr a; a_nc := a_nc a; a_diags := tidyup_diags (a_nr a) (a_diags a) |}.

(* ------------------------------------------------- matmul with Dia operands *)
(* matmul.pyx::matmul_dia_dense_dense(left, right, scale, out).  All three
   code paths (square fast track with _matmul_diag_block, the two strided
   walks) add, for every stored diagonal `off` in storage order and every row i
   of the output with 0 <= i+off < ncols(left),
        left.data[diag, i+off] * right[i+off, k]      into tmp[i, k];
   tmp is `out` itself when scale == 1, else a zero matrix that is scaled
   (imul_dense) or added to `out` (iadd_dense) at the end.  Gather form; the
   value is written out + scale*sum, which is what every branch computes on
   an exact carrier (0 + x = x, 1 * x = x). *)
Definition dia_row_dot (diags : list (Z * list C)) (nc : nat) (i : nat) (g : nat -> C) : C :=
  fold_left (fun acc d =>
      let j := (Z.of_nat i + fst d)%Z in
      if (0 <=? j)%Z && (j <? Z.of_nat nc)%Z
      then cadd acc (cmul (nth (Z.to_nat j) (snd d) c0) (g (Z.to_nat j))) else acc)
    diags c0.
Definition out_guard (out : option dense) (nr nc : nat) : bool :=
  match out with Some o => (d_nr o =? nr) && (d_nc o =? nc) | None => true end.
Definition matmul_dia_dense (l : dia) (r : dense) (scale : C) (out : option dense)
  : option dense :=
  if negb (a_nc l =? d_nr r) || negb (out_guard out (a_nr l) (d_nc r)) then None
  else
    let ford := match out with Some o => d_fortran o | None => d_fortran r end in
    Some {| d_nr := a_nr l; d_nc := d_nc r; d_fortran := ford;
            d_data := tabulate (a_nr l) (d_nc r) ford (fun i k =>
               cadd (match out with Some o => den_dense o i k | None => c0 end)
                    (cmul scale (dia_row_dot (a_diags l) (a_nc l) i (fun j => den_dense r j k)))) |}.

(* matmul_dense_dia_dense(left, right, scale, out): for every stored diagonal
   `off` of right and every output column k with 0 <= k-off < nrows(right),
        right.data[diag, k] * left[i, k-off]          into tmp[i, k] *)
Definition dia_col_dot (diags : list (Z * list C)) (nr : nat) (k : nat) (g : nat -> C) : C :=
  fold_left (fun acc d =>
      let j := (Z.of_nat k - fst d)%Z in
      if (0 <=? j)%Z && (j <? Z.of_nat nr)%Z
      then cadd acc (cmul (nth k (snd d) c0) (g (Z.to_nat j))) else acc)
    diags c0.
Definition matmul_dense_dia (l : dense) (r : dia) (scale : C) (out : option dense)
  : option dense :=
  if negb (d_nc l =? a_nr r) || negb (out_guard out (d_nr l) (a_nc r)) then None
  else
    let ford := match out with Some o => d_fortran o | None => d_fortran l end in
    Some {| d_nr := d_nr l; d_nc := a_nc r; d_fortran := ford;
            d_data := tabulate (d_nr l) (a_nc r) ford (fun i k =>
               cadd (match out with Some o => den_dense o i k | None => c0 end)
                    (cmul scale (dia_col_dot (a_diags r) (a_nr r) k (fun j => den_dense l i j)))) |}.

(* matmul_dia(left, right, scale): output offsets = sorted distinct sums
   off_l + off_r inside (-nrows(left), ncols(right)); for every pair of stored
   diagonals (left-major, storage order) and every column in [start, end)
        data[index(off_l+off_r), col] += scale * left.data[dl, col-off_r] * right.data[dr, col]
   with start / end computed from the three max / min expressions of the code *)
Definition mdia_range (nrl ncl nrr ncr : nat) (ol or : Z) (col : nat) : bool :=
  let oo := (ol + or)%Z in
  let start := Z.max (Z.max (Z.max 0 ol + or) (Z.max 0 or)) (Z.max 0 oo) in
  let stop := Z.min (Z.min (Z.min (Z.of_nat ncl) (Z.of_nat nrl + ol) + or)
                           (Z.min (Z.of_nat ncr) (Z.of_nat nrr + or)))
                    (Z.min (Z.of_nat ncr) (Z.of_nat nrl + oo)) in
  (start <=? Z.of_nat col)%Z && (Z.of_nat col <? stop)%Z.
Definition mdia_slot (l r : dia) (scale : C) (oo : Z) (col : nat) : C :=
  fold_left (fun acc dl =>
    fold_left (fun acc' dr =>
      if ((fst dl + fst dr =? oo)%Z
          && mdia_range (a_nr l) (a_nc l) (a_nr r) (a_nc r) (fst dl) (fst dr) col)
      then cadd acc' (cmul (cmul scale (nth (Z.to_nat (Z.of_nat col - fst dr)) (snd dl) c0))
                           (nth col (snd dr) c0))
      else acc') (a_diags r) acc) (a_diags l) c0.
Definition matmul_dia (l r : dia) (scale : C) : option dia :=
  if negb (a_nc l =? a_nr r) then None
  else
    let sums := flat_map (fun dl => map (fun dr => (fst dl + fst dr)%Z) (a_diags r)) (a_diags l) in
    let offs := filter (fun o => (- Z.of_nat (a_nr l) <? o)%Z && (o <? Z.of_nat (a_nc r))%Z)
                       (fold_right zinsert [] sums) in
    Some {| a_nr := a_nr l; a_nc := a_nc r;
            a_diags := map (fun oo => (oo, map (mdia_slot l r scale oo) (seq 0 (a_nc r)))) offs |}.

(* ---- predicates and tidy-up ------------------------------------------- *)
(* properties.pyx::isequal_dia after clean_dia (1930127): walk of the two
   sorted offset lists; when either side has no diagonal left, the two tail
   loops require every remaining diagonal of the other side to be zero *)
Definition all0 (l : list C) : bool := forallb is0 l.
Definition rest0 (A : list (Z * list C)) : bool := forallb (fun d => all0 (snd d)) A.
Fixpoint isequal_dia_walk (fuel : nat) (A B : list (Z * list C)) : bool :=
  match fuel with
  | O => rest0 A && rest0 B
  | S f =>
    match A, B with
    | (oa, da) :: ta, (ob, db) :: tb =>
        if (oa =? ob)%Z then
          if forallb (fun p => ceqb (fst p) (snd p)) (combine da db)
          then isequal_dia_walk f ta tb else false
        else if (oa <=? ob)%Z then (if all0 da then isequal_dia_walk f ta B else false)
        else (if all0 db then isequal_dia_walk f A tb else false)
    | _, _ => rest0 A && rest0 B
    end
  end.
Definition isequal_dia (a b : dia) : bool :=
  if negb ((a_nr a =? a_nr b) && (a_nc a =? a_nc b)) then false
  else isequal_dia_walk (length (a_diags a) + length (a_diags b)) (a_diags a) (a_diags b).

(* the rule before 1930127: the walk stopped, and answered True, as soon as
   one operand had no diagonal left *)
Fixpoint old_isequal_dia_walk (fuel : nat) (A B : list (Z * list C)) : bool :=
  match fuel with
  | O => true
  | S f =>
    match A, B with
    | (oa, da) :: ta, (ob, db) :: tb =>
        if (oa =? ob)%Z then
          if forallb (fun p => ceqb (fst p) (snd p)) (combine da db)
          then old_isequal_dia_walk f ta tb else false
        else if (oa <=? ob)%Z then (if all0 da then old_isequal_dia_walk f ta B else false)
        else (if all0 db then old_isequal_dia_walk f A tb else false)
    | _, _ => true
    end
  end.

(* properties.pyx::isdiag_csr (96e4de2): every stored entry off the diagonal
   must hold the value 0 *)
Fixpoint isdiag_rows (r : nat) (rows : list crow) : bool :=
  match rows with
  | [] => true
  | row :: t =>
      forallb (fun p => (fst p =? r) || is0 (snd p)) row && isdiag_rows (S r) t
  end.
Definition isdiag_csr (m : csr) : bool := isdiag_rows 0 (s_rows m).

(* the rule before 96e4de2: structure only *)
Fixpoint old_isdiag_rows (r : nat) (rows : list crow) : bool :=
  match rows with
  | [] => true
  | row :: t =>
      match row with
      | [] => old_isdiag_rows (S r) t
      | [p] => if fst p =? r then old_isdiag_rows (S r) t else false
      | _ => false
      end
  end.

(* tidyup.pyx::tidyup_dense(matrix, tol, inplace) (e806789): the loop reads
   and stores into `out`, which is the argument itself when inplace and a
   copy otherwise.  Result: (returned matrix, argument afterwards) *)
Definition tidyup_dense (d : dense) (inplace : bool) : dense * dense :=
  let tidied := map_dense tidy d in
  if inplace then (tidied, tidied) else (tidied, d).
(* before e806789 the loop stored into the argument and returned the copy *)
Definition old_tidyup_dense (d : dense) (inplace : bool) : dense * dense :=
  let tidied := map_dense tidy d in
  if inplace then (tidied, tidied) else (d, tidied).
Definition tidyup_csr (m : csr) (inplace : bool) : csr * csr :=
  let tidied := {| s_nr := s_nr m; s_nc := s_nc m;
                   s_rows := map (fun row => flat_map (fun p =>
                       let v := tidy (snd p) in if is0 v then [] else [(fst p, v)]) row)
                     (s_rows m) |} in
  if inplace then (tidied, tidied) else (tidied, m).

End Kernels.

(* ------------------------------------------------------------------ pow *)
(* pow.pyx::pow_csr / pow_dia / pow_dense share one loop (square-and-multiply
   from the least significant bit):
       pow = matrix; out = pow if n & 1 else None; n >>= 1
       while n:  pow = pow @ pow
                 if n & 1: out = pow if out is None else out @ pow
                 n >>= 1
   with n == 0 -> identity and n == 1 -> copy handled before.  M is the matrix
   type, mul the format's matmul kernel. *)
Section BinPow.
Variable M : Type.
Variable mul : M -> M -> M.
Fixpoint pow_loop (fuel n : nat) (pw : M) (out : option M) : option M :=
  match fuel with
  | O => out
  | S f =>
      if n =? 0 then out
      else let pw' := mul pw pw in
           let out' := if Nat.odd n
                       then Some (match out with None => pw' | Some o => mul o pw' end)
                       else out in
           pow_loop f (n / 2) pw' out'
  end.
Definition pow_model (ident : M) (x : M) (n : nat) : M :=
  if n =? 0 then ident
  else if n =? 1 then x
  else match pow_loop n (n / 2) x (if Nat.odd n then Some x else None) with
       | Some o => o | None => ident end.
End BinPow.

(* ------------------------------------------------------------ dispatcher *)
(* convert.pyx::_converter and dispatch.pyx::_constructed_specialisation as
   data.  Types are numbered; `Data` (the abstract base) is type 0. *)
Section Dispatch.
Variable V : Type.                 (* data-layer objects *)
Variable ty : V -> nat.            (* concrete type of an object *)
Definition TData := 0.

Record conv := { c_to : nat; c_from : nat; c_funs : list (V -> V) }.

(* _converter.__call__: isinstance test, then the functions in order *)
Definition conv_call (c : conv) (x : V) : option V :=
  if (c_from c =? TData) || (ty x =? c_from c)
  then Some (fold_left (fun a f => f a) (c_funs c) x) else None.

Record entry := {
  e_in : list nat;                 (* key of the lookup table: operand types *)
  e_out : option nat;              (* requested output type, if dispatched *)
  e_convs : list conv;             (* one per operand *)
  e_outconv : option conv;
  e_base : list V -> option V }.   (* the registered specialisation *)

Fixpoint conv_args (cs : list conv) (args : list V) : option (list V) :=
  match cs, args with
  | [], [] => Some []
  | c :: cs', x :: args' =>
      match conv_call c x, conv_args cs' args' with
      | Some y, Some ys => Some (y :: ys) | _, _ => None end
  | _, _ => None
  end.

(* _constructed_specialisation.__call__ *)
Definition entry_call (e : entry) (args : list V) : option V :=
  match conv_args (e_convs e) args with
  | None => None
  | Some args' =>
      match e_base e args' with
      | None => None
      | Some out => match e_outconv e with
                    | None => Some out
                    | Some c => conv_call c out end
      end
  end.

(* typing facts exported from the real table: (to, from) of every converter,
   and the key under which the base is registered *)
Definition conv_typed (c : conv) (from to : nat) : bool :=
  ((c_from c =? from) || (c_from c =? TData)) && (c_to c =? to).

Fixpoint convs_typed (cs : list conv) (ins spec : list nat) : bool :=
  match cs, ins, spec with
  | [], [], [] => true
  | c :: cs', i :: ins', s :: spec' =>
      conv_typed c i s && convs_typed cs' ins' spec'
  | _, _, _ => false
  end.

Definition entry_ok (spec_in : list nat) (spec_out : option nat) (e : entry) : bool :=
  convs_typed (e_convs e) (e_in e) spec_in &&
  match e_out e, e_outconv e, spec_out with
  | Some o, Some c, Some so => ((c_from c =? so) || (c_from c =? TData)) && (c_to c =? o)
  | None, None, _ => true
  | _, _, _ => false
  end.
End Dispatch.

(* --------------------------------------------- Gaussian-integer instance *)
Definition G := (Z * Z)%type.
Definition g0 : G := (0, 0)%Z.
Definition g1 : G := (1, 0)%Z.
Definition gadd (a b : G) : G := (fst a + fst b, snd a + snd b)%Z.
Definition gmul (a b : G) : G :=
  (fst a * fst b - snd a * snd b, fst a * snd b + snd a * fst b)%Z.
Definition gopp (a : G) : G := (- fst a, - snd a)%Z.
Definition gconj (a : G) : G := (fst a, - snd a)%Z.
Definition gis0 (a : G) : bool := ((fst a =? 0) && (snd a =? 0))%Z.
Definition geqb (a b : G) : bool := ((fst a =? fst b) && (snd a =? snd b))%Z.
(* tidy with threshold tol (an integer; tol = 1 leaves integers alone) *)
Definition gtidy (tol : Z) (a : G) : G :=
  ((if Z.abs (fst a) <? tol then 0 else fst a), (if Z.abs (snd a) <? tol then 0 else snd a))%Z.

(* instances used by the correspondence (auto_tidyup thresholds are far below
   1, so on Gaussian integers `small` is the zero test and `tidy` is the
   identity: gtidy 1) *)
Definition Gdense := dense G.
Definition Gcsr := csr G.
Definition Gdia := dia G.
Definition G_den_dense := den_dense G g0.
Definition G_den_csr := den_csr G g0.
Definition G_den_dia := den_dia G g0.
Definition G_csr_of_raw := csr_of_raw G.
Definition G_csr_from_dense := csr_from_dense G g0 gis0.
Definition G_dense_from_csr := dense_from_csr G g0.
Definition G_transpose_csr := transpose_csr G.
Definition G_adjoint_csr := adjoint_csr G gconj.
Definition G_conj_csr := conj_csr G gconj.
Definition G_neg_csr := neg_csr G gopp.
Definition G_mul_csr := mul_csr G gmul gis0.
Definition G_transpose_dense := transpose_dense G.
Definition G_adjoint_dense := adjoint_dense G gconj.
Definition G_conj_dense := conj_dense G gconj.
Definition G_neg_dense := neg_dense G gopp.
Definition G_mul_dense := mul_dense G gmul.
Definition G_reorder_dense := reorder_dense G g0.
Definition G_add_dense := add_dense G g0 gadd gmul.
Definition G_iadd_dense := iadd_dense G g0 gadd gmul.
Definition G_trace_csr := trace_csr G g0 gadd.
Definition G_trace_dense := trace_dense G g0 gadd.
Definition G_add_csr := add_csr G g1 gadd gmul gis0 geqb (gtidy 1).
Definition G_kron_csr := kron_csr G gmul.
Definition G_mm (a b : csr G) : csr G :=
  match matmul_csr G gadd gmul gis0 (gtidy 1) a b g1 with Some v => v | None => a end.
Definition G_identity_csr (n : nat) : csr G :=
  {| s_nr := n; s_nc := n; s_rows := map (fun i => [(i, g1)]) (seq 0 n) |}.
Definition G_pow_csr (m : csr G) (n : nat) : option (csr G) :=
  if negb (s_nr G m =? s_nc G m) then None
  else Some (pow_model (csr G) G_mm (G_identity_csr (s_nr G m)) m n).
Definition G_matmul_dia_dense := matmul_dia_dense G g0 gadd gmul.
Definition G_matmul_dense_dia := matmul_dense_dia G g0 gadd gmul.
Definition G_matmul_dia := matmul_dia G g0 gadd gmul.
Definition G_dia_from_csr := dia_from_csr G g0.
Definition G_add_dia := add_dia G g0 g1 gadd gmul gis0 geqb (gtidy 1).
Definition G_clean_dia := clean_dia G g0 gadd.
Definition G_tidyup_dia (tol : Z) := tidyup_dia G g0 gis0 (gtidy tol).
Definition G_inner_csr := inner_csr G g0 gadd gmul gconj.
Definition G_inner_op_csr := inner_op_csr G g0 gadd gmul gconj.
Definition G_expect_csr := expect_csr G g0 gadd gmul gconj.
Definition G_expect_super_csr := expect_super_csr G g0 gadd gmul.
Definition G_expect_via_inner := expect_via_inner G g0 g1 gadd gmul gconj gis0 (gtidy 1).
Definition G_old_expect_via_inner := old_expect_via_inner G g0 g1 gadd gmul gconj gis0 (gtidy 1).
Definition G_inner_op_via_product := inner_op_via_product G g0 g1 gadd gmul gconj gis0 (gtidy 1).
Definition G_matmul_csr := matmul_csr G gadd gmul gis0 (gtidy 1).
Definition G_matmul_csr_dense := matmul_csr_dense G g0 gadd gmul.
Definition G_reshape_csr := reshape_csr G.
Definition G_reshape_dense := reshape_dense G g0.
Definition G_column_stack_csr := column_stack_csr G.
Definition G_column_stack_dense := column_stack_dense G g0.
Definition G_column_unstack_dense := column_unstack_dense G.
Definition G_column_unstack_csr := column_unstack_csr G.
Definition G_dense_from_dia := dense_from_dia G g0.
Definition G_dia_from_dense_full := dia_from_dense_full G g0.
Definition G_csr_from_dia := csr_from_dia G g0 gadd gis0.
Definition G_isequal_dia := isequal_dia G gis0 geqb.
Definition G_isdiag_csr := isdiag_csr G gis0.
Definition G_old_isdiag_csr (m : csr G) := old_isdiag_rows G 0 (s_rows G m).
Definition G_old_isequal_dia_walk := old_isequal_dia_walk G gis0 geqb.
Definition G_old_tidyup_dense (tol : Z) := old_tidyup_dense G (gtidy tol).
Definition G_tidyup_dense (tol : Z) := tidyup_dense G (gtidy tol).
Definition G_tidyup_csr (tol : Z) := tidyup_csr G gis0 (gtidy tol).
Definition vC (m : Gcsr) := (s_nr G m, s_nc G m, indptr_of G m, indices_of G m, data_of G m).
Definition vD (d : Gdense) := (d_nr G d, d_nc G d, d_fortran G d, d_data G d).
Definition vA (a : Gdia) := (a_nr G a, a_nc G a, a_diags G a).
Definition vO {A B} (f : A -> B) (x : option A) : option B :=
  match x with Some a => Some (f a) | None => None end.
Definition mkD (nr nc : nat) (f : bool) (data : list G) : Gdense := Build_dense G nr nc f data.
Definition mkA (nr nc : nat) (diags : list (Z * list G)) : Gdia := Build_dia G nr nc diags.
